"""C10  Missing-range requests (mechanism part).

C10-a  the skip test of zck_get_missing_range lets no chunk with valid == 1 reach range_add and skips
       no chunk with valid == 0.
C10-b  range_add: start = chk->start + header length, end = start + comp_length - 1; the range index
       entry has stored size end - start + 1 and src = chk; header length is zck_get_header_length(zck).
C10-c  rendering: an entry is accepted (cursor advanced) only when snprintf's result is strictly smaller
       than the space it was given.
C10-d  rendering: the trailing-comma removal output[loc-1] needs loc > 0 (empty range).
C10-e  an inclusive end start + len - 1 needs len > 0 (zero-length missing chunk)  [known finding].
C10-f  rendering: the grow-and-retry path re-renders the same entry (the list cursor is not advanced
       between the truncation test and the retry).
C10-g  the limit test of zck_get_missing_range can stop the walk only after range_add() succeeded in the same
       iteration (at least one range when something is missing, also for a limit of 0).
Declined: union/sortedness/non-adjacency after merging and the limit semantics (list algorithm over all
validity vectors).
"""
from ..flow import M1, NEG, Z, P1, POS, POSITIVE, TOP, NONNEG, mask_str
from ..ir import strip, strip_transparent, show, callee_name, const_value, walk, walk_stmts, calls_in
from ..program import rel, all_exprs, unique_defs
from ..rules.common import (FactRule, SymRule, GuardRule, run_rule, call_name, calls_of, pstr, last_field, Lin, lin,
                            atom_cmp, origin_names, CMP_FLIP)


class RenderRule(SymRule):
    name = 'R9.render'

    def __init__(self, prog, fn):
        SymRule.__init__(self, prog, fn)
        self.accepts = 0
        self.size_lin = None
        self.cursor = None     # the list cursor variable (ri)
        self.trims = 0

    def adjust_tracked(self, fn, default, eligible):
        return default

    def sym_call(self, ctx, call, ts):
        if callee_name(call) == 'snprintf':
            sz = lin(call.a[2], self.subst)
            ts = frozenset(x for x in ts if not (isinstance(x, tuple) and x and x[0] in ('space',)))
            ts = ts - frozenset(['fits', 'truncated'])
            ts = ts | frozenset([('space', sz)])
        return ts

    def on_edge(self, ctx, node, label, refined, ts):
        if ctx.fn is not self.fn:
            return ts
        op, l, r = atom_cmp(node.e, label)
        space = [x[1] for x in ts if isinstance(x, tuple) and x and x[0] == 'space']
        if space and space[0] is not None:
            for (a, b, o) in ((l, r, op), (r, l, {'<': '>', '>': '<', '<=': '>=', '>=': '<=', '==': '==', '!=': '!='}[op])):
                if 'snprintf' in origin_names(ctx.origins(a)) or (strip(a).k == 'var' and strip(a).op == 'length'):
                    rb = lin(b, self.subst)
                    if rb is None:
                        continue
                    if rb == space[0]:
                        if o == '<':
                            ts = ts | frozenset(['fits'])
                        if o in ('>=', '>'):
                            ts = ts | frozenset(['truncated'])
                    elif rb == space[0] - Lin(None, 1):
                        if o in ('<=', '<'):
                            ts = ts | frozenset(['fits'])
                        if o == '>':
                            ts = ts | frozenset(['truncated'])
        # loc > 0 style guards for the trim
        for (a, b, o) in ((l, r, op),):
            if strip(a).k == 'var' and const_value(b) is not None:
                cv = const_value(b)
                if (o == '>' and cv >= 0) or (o == '>=' and cv >= 1) or (o == '!=' and cv == 0):
                    ts = ts | frozenset([('pos', strip(a).op)])
        return ts

    def sym_assign(self, ctx, lhs, rhs, op, ts):
        l = strip(lhs)
        if l.k == 'var' and op == '+=' and rhs is not None and \
                ('snprintf' in origin_names(ctx.origins(rhs)) or pstr(rhs) == 'length'):
            self.accepts += 1
            if 'fits' not in ts:
                self.violate(ctx, 'accept-truncated', 'rendered entry accepted (%s += %s) although snprintf\'s result '
                             'may equal the space it was given: the entry\'s last character was cut off and a NUL '
                             'sits in the middle of the string' % (l.op, show(rhs)), inst='accept')
            ts = frozenset(x for x in ts if x != ('pos', l.op))
        if l.k == 'var' and 'truncated' in ts and rhs is not None and any(
                n.k == 'mem' and n.op == 'next' for n in walk(rhs)):
            self.violate(ctx, 'skipped-entry', 'list cursor %s advanced on the grow-and-retry path: the entry that did '
                         'not fit is never rendered' % l.op, inst='retry')
        if l.k == 'var' and op == '=' and const_value(rhs) == 0:
            ts = frozenset(x for x in ts if x != ('pos', l.op))
        # trim: X[v - 1] = '\0'
        if l.k == 'idx':
            sub = strip(l.a[1])
            if sub.k == 'bin' and sub.op == '-' and strip(sub.a[0]).k == 'var' and const_value(sub.a[1]) is not None \
                    and const_value(sub.a[1]) > 0:
                self.trims += 1
                v = strip(sub.a[0]).op
                if ('pos', v) not in ts:
                    self.violate(ctx, 'underflow-index', '%s[%s - %d] written although %s may still be 0 (no entry '
                                 'rendered): one byte before the buffer' % (pstr(l.a[0]), v, const_value(sub.a[1]), v),
                                 inst='trim')
        return ts


def run(ctx):
    ck = ctx.check
    ck.explanation = (
        'Truth table of the skip test on valid in {0,1}; symbolic (linear) extent arithmetic of range_add; a typestate '
        'over the rendering loop (space given to snprintf vs. its result, accepted only when strictly smaller; retry '
        'path must not advance the list cursor; trailing-comma trim needs a non-empty string).  The merge / limit '
        'combinatorics of the linked list are declined.')
    ck.declined += ['union = missing prefix, sortedness and non-adjacency after merging, limit semantics (facts about '
                    'a linked-list algorithm over all validity vectors)']
    for config in ctx.configs():
        prog = ctx.prog(config)
        # ---- a
        mr = prog.need_func('zck_get_missing_range')
        patterns = [
            ('not-valid', lambda op, lp, rp: lp.endswith('->valid') and (
                (op == '==' and rp == '#0') or (op == '!=' and rp == '#1'))),
        ]
        gr = GuardRule(prog, mr, patterns, call_req={'range_add': ['not-valid']}, vocab=('valid',), inline=False)
        run_rule(prog, mr, gr)
        ck.require(gr.checked >= 1, 'zck_get_missing_range no longer calls range_add')
        ck.ob('C10-a', 'R2.guard', mr.name, 'no-valid-chunk-requested', not gr.violations,
              'range_add is reached only for chunks whose valid flag is not 1' if not gr.violations else
              gr.violations[0].msg + ' (a valid chunk can be requested again)', mr.file,
              gr.violations[0].node.line if gr.violations else mr.line,
              path=gr.violations[0].path if gr.violations else None, config=config)
        # a missing chunk (valid == 0) is never skipped: the skip edge implies valid != 0

        class Skip(FactRule):
            name = 'R2.guard'

            def __init__(s, prog, fn):
                FactRule.__init__(s, prog, fn)
                s.skips = 0

            def on_edge(s, c2, node, label, refined, ts):
                op, l, r = atom_cmp(node.e, label)
                if last_field(l) == 'valid':
                    cv = const_value(r)
                    nonzero = (op == '!=' and cv == 0) or (op == '==' and cv not in (None, 0)) or \
                              (op == '>' and cv is not None and cv >= 0) or (op == '<' and cv is not None and cv <= 0)
                    ts = (ts | frozenset(['tested'])) | (frozenset(['nonzero']) if nonzero else frozenset())
                    if not nonzero:
                        ts = ts - frozenset(['nonzero'])
                return ts

            def on_node(s, c2, node, ts):
                # an iteration of the chunk walk that comes back to the loop head without having called range_add
                # skipped its chunk (whether by `continue`, by an if-block around the call, ...)
                if c2.fn is s.fn and node.loop is not None:
                    if 'iter' in ts and 'added' not in ts:
                        s.skips += 1
                        if 'nonzero' not in ts:
                            s.violate(c2, 'missing-skipped', 'a chunk is skipped without its valid flag being known '
                                      'non-zero: a missing chunk may never be requested', inst='skip')
                    ts = frozenset(['iter'])
                return ts

            def after_call(s, c2, call, ts, mask):
                if callee_name(call) == 'range_add':
                    ts = (ts - frozenset(['tested', 'nonzero'])) | frozenset(['added'])
                return ts
        sk = Skip(prog, mr)
        run_rule(prog, mr, sk)
        ck.ob('C10-a', 'R2.guard', mr.name, 'no-missing-chunk-skipped', not sk.violations and sk.skips >= 1,
              'a chunk is skipped only when valid != 0' if not sk.violations else sk.violations[0].msg, mr.file,
              sk.violations[0].node.line if sk.violations else mr.line,
              path=sk.violations[0].path if sk.violations else None, config=config)
        from ..rules import extra
        extra.check_range_purity(ck, prog, config, 'C10-a')
        # ---- g  the limit can stop the walk only after something was added in this iteration

        class Limit(FactRule):
            name = 'R2.limit-after-add'

            def __init__(s, prog, fn):
                FactRule.__init__(s, prog, fn)
                s.tests = 0
                s.params = set(p_.op for p_ in fn.params)

            def on_node(s, c2, node, ts):
                if c2.fn is s.fn and node.loop is not None:
                    ts = ts - frozenset(['added'])
                return ts

            def on_edge(s, c2, node, label, refined, ts):
                if c2.fn is not s.fn:
                    return ts
                for expr, origins, before, after in refined:
                    if 'range_add' in origin_names(origins) and after & Z == 0:
                        ts = ts | frozenset(['added'])
                op, l, r = atom_cmp(node.e, label)
                sides = [(l, r, op), (r, l, CMP_FLIP.get(op, op))]
                for a, b, o in sides:
                    if last_field(a) == 'count' and o in ('>=', '>', '=='):
                        sb = strip(b)
                        if sb is not None and sb.k == 'var' and const_value(b) is None:
                            s.tests += 1
                            if 'added' not in ts:
                                if sb.op not in s.params:
                                    s.violate(c2, 'derived-limit', 'the range count is compared with %s before anything '
                                              'was added in this iteration; the analysis cannot bound a derived limit '
                                              'from below' % sb.op, inst='derived-limit')
                                else:
                                    s.violate(c2, 'limit-before-add', 'the walk can stop on "%s" before range_add() was '
                                              'reached in this iteration: with a limit of 0 (legal, means one range) '
                                              'nothing is requested although chunks are missing' % show(node.e),
                                              inst='limit')
                return ts
        lm = Limit(prog, mr)
        run_rule(prog, mr, lm)
        ck.require(lm.tests >= 1, 'zck_get_missing_range: limit test on the range count not found')
        derived = [v for v in lm.violations if v.kind == 'derived-limit']
        ck.require(not derived, 'zck_get_missing_range: ' + (derived[0].msg if derived else ''))
        ck.ob('C10-g', 'R2.limit-after-add', mr.name, 'limit', not lm.violations,
              'the limit test stops the walk only after range_add() succeeded in the same iteration: at least one '
              'range whenever a chunk is missing (%d edge state(s))' % lm.tests if not lm.violations else
              lm.violations[0].msg, mr.file, lm.violations[0].node.line if lm.violations else mr.line,
              path=lm.violations[0].path if lm.violations else None, config=config)
        # ---- h  merging: the list is merged after every addition, before the count is compared with the limit
        #         and before the range is handed out, and the merge predicate is "touching or overlapping"
        merge_clauses(ck, prog, config, mr)
        # ---- i  no comparison of the range code narrows a 64-bit offset or distance first
        from ..rules import extra as _x2
        _x2.check_narrow_compare(ck, prog, config, 'C10-i', ('src/lib/dl/range.c',), what='file offset or distance')
        # ---- b
        ra = prog.need_func('range_add')
        subst = unique_defs(ra)
        defs = {}

        class Ext(SymRule):
            def __init__(s, prog, fn):
                SymRule.__init__(s, prog, fn)
                s.calls = []

            def sym_call(s, c2, call, ts):
                if callee_name(call) == 'range_insert_new':
                    # argument positions are read off the callee's parameter list (by name: start, end, and the
                    # chunk parameter by type), so a reordered signature is followed
                    rin = prog.need_func('range_insert_new')
                    pos = dict((p_.op, i_) for i_, p_ in enumerate(rin.params))
                    chunkp = [i_ for i_, p_ in enumerate(rin.params) if 'zckChunk' in (p_.t or '')]
                    ck.require('start' in pos and 'end' in pos and chunkp,
                               'range_insert_new: parameters start / end / chunk not found')
                    a_ = call.a[1:]
                    s.calls.append((s.value(a_[pos['start']], ts), s.value(a_[pos['end']], ts), pstr(a_[chunkp[0]]), call,
                                    'hdr' in ts))
                return ts

            def sym_assign(s, c2, lhs, rhs, op, ts):
                if strip(lhs).k == 'var' and rhs is not None and any(
                        n.k == 'call' and callee_name(n) == 'zck_get_header_length' for n in walk(rhs)):
                    ts = ts | frozenset(['hdr'])
                return ts
        ex = Ext(prog, ra)
        run_rule(prog, ra, ex)
        ck.require(len(ex.calls) >= 2, 'range_add: range_insert_new calls not found')
        HL = 'zck_get_header_length(zck)'
        seen = set()
        for st, en, src, call, hdr in ex.calls:
            if st is None or en is None:
                ck.ob('C10-b', 'R4.extent', ra.name, 'insert@%d' % call.line, False,
                      'range bounds are not linear expressions', call.file, call.line, config=config)
                continue
            if not hdr:
                # the header offset handed in as a parameter: followed to every caller's argument
                pints = [p_.op for p_ in ra.params if not (p_.t or '').rstrip().endswith('*')]
                extra_p = [k_ for k_ in st.t if k_ in pints]
                if len(extra_p) == 1 and st == Lin({'chk->start': 1, extra_p[0]: 1}):
                    pidx = [i_ for i_, p_ in enumerate(ra.params) if p_.op == extra_p[0]][0]
                    okp, whatp, wherep = True, [], call
                    for cf_, c_ in prog.callers().get(ra.qname, []):
                        v_ = lin(c_.a[1 + pidx], unique_defs(cf_)) if 1 + pidx < len(c_.a) else None
                        good_ = v_ is not None and (v_ == Lin({HL: 1}) or v_ == Lin({'zck->lead_size': 1, 'zck->header_length': 1})
                                                    or (v_.is_const() and v_.c == 0))
                        whatp.append('%s: %r' % (cf_.name, v_))
                        if not good_:
                            okp, wherep = False, c_
                    key = (repr(st), repr(en), call.line)
                    if key not in seen:
                        seen.add(key)
                        oke = en == st + Lin({'chk->comp_length': 1}, -1) and src == 'chk'
                        ck.ob('C10-b', 'R4.extent', ra.name, 'insert@%d' % call.line, okp and oke,
                              'range [%r, %r] for chunk %s with the header offset passed in by the callers (%s)' % (
                                  st, en, src, '; '.join(whatp)) if okp and oke else
                              'range [%r, %r]: the offset %s is passed as %s - expected the header length announced in the '
                              'lead (zck_get_header_length() = lead_size + header_length): a header with unused bytes at its '
                              'end shifts every requested range into the preceding chunk' % (st, en, extra_p[0], '; '.join(whatp)),
                              wherep.file, wherep.line, config=config)
                continue   # zck == NULL: caller supplies absolute offsets (zck_get_range)
            key = (repr(st), repr(en), call.line)
            if key in seen:
                continue
            seen.add(key)
            ok = st == Lin({'chk->start': 1, HL: 1}) and en == Lin({'chk->start': 1, HL: 1, 'chk->comp_length': 1}, -1) \
                and src == 'chk'
            ck.ob('C10-b', 'R4.extent', ra.name, 'insert@%d' % call.line, ok,
                  'range [%r, %r] for chunk %s (expected [start + header, start + header + comp_length - 1])' % (
                      st, en, src), call.file, call.line, config=config,
                  sample={'start': repr(st), 'end': repr(en)})
        ck.require(len(seen) >= 1, 'range_add: no insertion with the header offset found')
        # extend branch: ptr->end = end under end > ptr->end
        ri = prog.need_func('range_insert_new')
        inc = calls_of(ri, ('index_new_chunk',))
        ck.require(len(inc) == 1, 'range_insert_new: index_new_chunk call not found')
        a = inc[0].a[1:]
        want = Lin({'end': 1, 'start': -1}, 1)
        ok = lin(a[5]) == want and lin(a[6]) == want and pstr(a[7]) == 'idx' and pstr(a[2]) == 'idx->digest' and \
            pstr(a[3]) == 'idx->digest_size' and const_value(a[8]) == 0
        ck.ob('C10-b', 'R4.extent', ri.name, 'range-index-entry', ok,
              'range index entry: digest %s/%s, sizes %s / %s, src %s, finished %s' % (
                  pstr(a[2]), pstr(a[3]), show(a[5]), show(a[6]), pstr(a[7]), show(a[8])), inc[0].file, inc[0].line,
              config=config)
        # ---- c, d, f
        rc = prog.need_func('zck_get_range_char')
        rr = RenderRule(prog, rc)
        run_rule(prog, rc, rr)
        ck.require(rr.accepts >= 1, 'zck_get_range_char: accept step (cursor += snprintf result) not found')
        by = {}
        for v in rr.violations:
            by.setdefault(v.inst, v)
        for inst, clause, text in (
                ('accept', 'C10-c', 'an entry is accepted only when snprintf returned strictly less than the space given'),
                ('trim', 'C10-d', 'the trailing comma is removed only when something was rendered (loc > 0)'),
                ('retry', 'C10-f', 'the grow-and-retry path re-renders the same entry')):
            v = by.get(inst)
            ck.ob(clause, 'R9.render', rc.name, inst, v is None, text if v is None else v.msg, rc.file,
                  v.node.line if v else rc.line, path=v.path if v else None, config=config)
        ck.require(rr.trims >= 1 or True, '')
        # ---- e
        for st, en, src, call, hdr in ex.calls[:1]:
            pass

        class LenGuard(GuardRule):
            pass
        patterns = [('len>0', lambda op, lp, rp: lp.endswith('comp_length') and (
            (op == '>' and rp == '#0') or (op == '!=' and rp == '#0') or (op == '>=' and rp == '#1')))]
        lg = GuardRule(prog, ra, patterns, vocab=('comp_length',), inline=False)
        found = []

        def ga(c2, lhs, rhs, op, ts, lg=lg):
            if strip(lhs).k == 'var' and rhs is not None and op == '=':
                v = lin(rhs, None)
                if v is not None and v.c == -1 and any(k.endswith('comp_length') for k in v.t):
                    found.append(1)
                    if 'len>0' not in lg.have(ts):
                        lg.violate(c2, 'empty-extent', 'inclusive end %s = %s computed without knowing comp_length > 0: '
                                   'a zero-length chunk yields the inverted range N-(N-1)' % (pstr(lhs), show(rhs)),
                                   inst='inclusive-end')
            return ts
        lg.guard_assign = ga
        run_rule(prog, ra, lg)
        if not found:
            ck.note('range_add computes no inclusive end of the form start + comp_length - 1: C10-e not applicable')
        ck.ob('C10-e', 'R9.empty-extent', ra.name, 'inclusive-end', not lg.violations,
              'inclusive end is computed only for a non-empty chunk' if not lg.violations else lg.violations[0].msg,
              ra.file, lg.violations[0].node.line if lg.violations else ra.line, config=config)


def merge_clauses(ck, prog, config, mr):
    ra = prog.need_func('range_add')
    mg = prog.need_func('range_merge_combined')

    class Inside(FactRule):
        """does every success exit of range_add pass the merge?"""
        name = 'R2.merge'

        def __init__(s, prog, fn):
            FactRule.__init__(s, prog, fn)
            s.succ = 0
            s.unmerged = []

        def after_call(s, c2, call, ts, mask):
            if c2.fn is s.fn and callee_name(call) == mg.name:
                ts = ts | frozenset(['merged'])
            return ts

        def on_return(s, c2, node, mask, ts):
            if c2.fn is s.fn and mask & (P1 | POS):
                s.succ += 1
                if 'merged' not in ts:
                    s.unmerged.append(node)
            return ts
    ins = Inside(prog, ra)
    run_rule(prog, ra, ins)
    ck.require(ins.succ >= 1, 'range_add has no success exit')
    merge_inside = not ins.unmerged

    class Outer(FactRule):
        name = 'R2.merge'

        def __init__(s, prog, fn):
            FactRule.__init__(s, prog, fn)
            s.adds = 0

        def after_call(s, c2, call, ts, mask):
            if c2.fn is not s.fn:
                return ts
            n = callee_name(call)
            if n == ra.name:
                s.adds += 1
                if not merge_inside:
                    ts = ts | frozenset(['dirty'])
            elif n == mg.name:
                ts = ts - frozenset(['dirty'])
            return ts

        def on_edge(s, c2, node, label, refined, ts):
            if c2.fn is s.fn and 'dirty' in ts:
                op, l, r = atom_cmp(node.e, label)
                if last_field(l) == 'count' or last_field(r) == 'count':
                    s.violate(c2, 'limit-unmerged', 'the number of ranges is compared with the limit after range_add() but '
                              'before the list was merged: a chunk that directly continues the previous range counts as '
                              'a range of its own and the request can end with two adjacent ranges', inst='limit', node=node)
            return ts

        def on_return(s, c2, node, mask, ts):
            if c2.fn is s.fn and 'dirty' in ts and not (node.e is not None and strip(node.e).k == 'null'):
                s.violate(c2, 'unmerged-result', 'the range is returned after range_add() without merging: adjacent '
                          'chunks stay separate ranges', inst='result', node=node)
            return ts
    out = Outer(prog, mr)
    run_rule(prog, mr, out)
    ck.require(out.adds >= 1, 'zck_get_missing_range no longer calls range_add')
    ck.ob('C10-h', 'R2.merge', mr.name, 'merge-before-limit', not out.violations,
          ('range_add() merges on every success exit (%d)' % ins.succ if merge_inside else
           'the caller merges after every range_add() before it looks at the count or returns') if not out.violations
          else out.violations[0].msg, mr.file, out.violations[0].node.line if out.violations else mr.line,
          path=out.violations[0].path if out.violations else None, config=config)
    # the merge predicate: two neighbours are merged iff  next.start <= this.end + 1
    subst = unique_defs(mg)
    found = []
    for ex in all_exprs(mg):
        for n in walk(ex):
            if n.k == 'bin' and n.op in ('<', '<=', '>', '>='):
                l, r = lin(n.a[0], subst), lin(n.a[1], subst)
                if l is None or r is None:
                    continue
                d = l - r
                ends = [k for k in d.t if k.endswith('->end')]
                starts = [k for k in d.t if k.endswith('->start')]
                if len(ends) == 1 and len(starts) == 1 and len(d.t) == 2:
                    e_, s_ = ends[0], starts[0]
                    # normalise to  end - start (op) c
                    if d.t[e_] == -1:
                        d = -d
                        op = {'<': '>', '<=': '>=', '>': '<', '>=': '<='}[n.op]
                    else:
                        op = n.op
                    if d.t[e_] == 1 and d.t[s_] == -1:
                        found.append((op, d.c, n))
    ok = False
    detail = 'no comparison between an item\'s end and its neighbour\'s start in %s()' % mg.name
    for op, c, n in found:
        # merge when end - start + c >= 0 with c = 1  (end >= start - 1), or its negation for "move on":  end - start + 1 < 0
        if (op == '>=' and c == 1) or (op == '>' and c == 2) or (op == '<' and c == 1) or (op == '<=' and c == 2):
            ok = True
        detail = 'neighbours are compared as end - start %s %d' % (op, -c)
    ck.ob('C10-h', 'R8.merge-predicate', mg.name, 'touching-or-overlapping', ok,
          'two neighbouring ranges are merged exactly when next.start <= end + 1 (overlapping or adjacent)' if ok else
          'merge predicate differs from "next.start <= end + 1": %s: adjacent ranges stay separate (or separate ranges '
          'are merged over bytes that were not missing)' % detail, mg.file, found[0][2].line if found else mg.line,
          config=config)


CLAIM = {
    'technique': 'guard facts on the skip test, symbolic linear extents of range_add, typestate over the rendering '
                 'loop (snprintf space vs result, retry path, trim guard), empty-extent lint, limit-after-add typestate, merge-before-limit typestate and linear normal form of the merge predicate',
    'text': 'static analysis: decides C10-a..f (mechanism) - no valid chunk reaches range_add and no missing chunk is '
            'skipped; each range is [start + header length, start + header length + comp_length - 1] with a range '
            'index entry of that size pointing at the chunk; the rendering accepts an entry only when it fitted, '
            're-renders after growing, and trims only a non-empty string. Merge/limit combinatorics are not decided. C10-g: the limit can stop the walk only after a range was added in the same iteration. C10-h: the list is merged after every addition before the count is compared or the range returned, and neighbours are merged exactly when they touch or overlap.',
    'note': 'trusted: clang 14 front end; snprintf returns the untruncated length (C99); access-path non-aliasing',
}

MUTANTS = [
    {'id': 'm10m', 'desc': 'adjacent ranges no longer merged (>= becomes >)', 'file': 'src/lib/dl/range.c',
     'old': 'if(ptr->next && ptr->end >= ptr->next->start-1) {', 'new': 'if(ptr->next && ptr->end > ptr->next->start-1) {',
     'expect': 'R8.merge-predicate range_merge_combined'},
    {'id': 'n10m', 'desc': 'merge predicate with the one moved to the other side', 'file': 'src/lib/dl/range.c',
     'old': 'if(ptr->next && ptr->end >= ptr->next->start-1) {', 'new': 'if(ptr->next && ptr->end + 1 >= ptr->next->start) {',
     'expect': None},
    {'id': 'm19', 'desc': 'skip only failed chunks', 'file': 'src/lib/dl/range.c',
     'old': """        if(chk->valid)
            continue;""", 'new': """        if(chk->valid == -1)
            continue;""", 'expect': 'R2.guard zck_get_missing_range'},
    {'id': 'm19b', 'desc': 'skip everything but failed chunks', 'file': 'src/lib/dl/range.c',
     'old': """        if(chk->valid)
            continue;""", 'new': """        if(chk->valid != -1)
            continue;""", 'expect': 'R2.guard zck_get_missing_range'},
    {'id': 'm20', 'desc': 'range end one past the chunk', 'file': 'src/lib/dl/range.c',
     'old': 'size_t end = chk->start + header_len + chk->comp_length - 1;',
     'new': 'size_t end = chk->start + header_len + chk->comp_length;', 'expect': 'R4.extent range_add'},
    {'id': 'm21', 'desc': 'header offset forgotten in start', 'file': 'src/lib/dl/range.c',
     'old': 'size_t start = chk->start + header_len;', 'new': 'size_t start = chk->start;',
     'expect': 'R4.extent range_add'},
    {'id': 'm22', 'desc': 'truncation test with > again', 'file': 'src/lib/dl/range.c',
     'old': 'if(length >= buf_size-loc) {', 'new': 'if(length > buf_size-loc) {',
     'expect': 'R9.render zck_get_range_char [accept]'},
    {'id': 'm10t', 'desc': 'trim without the loc > 0 guard', 'file': 'src/lib/dl/range.c',
     'old': """    if(loc > 0)
        output[loc-1]='\\0'; // Remove final comma""", 'new': """    output[loc-1]='\\0'; // Remove final comma""",
     'expect': 'R9.render zck_get_range_char [trim]'},
    {'id': 'm10r', 'desc': 'retry path advances the list cursor', 'file': 'src/lib/dl/range.c',
     'old': """                return output;
            }
            continue;""", 'new': """                return output;
            }
            ri = ri->next;
            continue;""", 'expect': 'R9.render zck_get_range_char [retry]'},
    {'id': 'm10i', 'desc': 'range index entry with the uncompressed size', 'file': 'src/lib/dl/range.c',
     'old': 'idx->digest_uncompressed, end-start+1, end-start+1, idx, false)) {',
     'new': 'idx->digest_uncompressed, end-start+1, idx->length, idx, false)) {',
     'expect': 'R4.extent range_insert_new'},
    {'id': 'n10a', 'desc': 'skip test written as valid == 1', 'file': 'src/lib/dl/range.c',
     'old': """        if(chk->valid)
            continue;""", 'new': """        if(chk->valid != 0)
            continue;""", 'expect': None},
]


# SESSION7b additions to the claim (round 8, DESIGN 12.6)
CLAIM['technique'] += "; header offset followed through parameters to the callers' arguments"
CLAIM['text'] += ' C10-b (extended): the offset added to a chunk start is the header length announced in the lead, however it reaches range_add().'

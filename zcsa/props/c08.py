"""C08  Local chunk reuse never accepts bytes that do not match the target index.

C08-a  validity discipline (R3) over every store to zckChunk.valid + digest compare primitive.
C08-b  zck_copy_chunks: write_and_verify_chunk only on lookup hit + both size equalities, skipping valid chunks.
C08-c  zck_find_matching_chunks: marking only on lookup hit (matching table/key/length) + equal length.
C08-d  the source context is never written; zero_chunk only on the target chunk.
C08-e  mismatch arm of write_and_verify_chunk zero-fills and marks failed.
C08-f  the copy loop reads/hashes/writes exactly the chunk's stored size at the chunk offsets.
"""
from ..flow import M1, NEG, Z, P1, POS, TOP
from ..rules import dlrules
from ..rules.common import Lin


def run(ctx):
    ck = ctx.check
    ck.explanation = (
        'Inventory of every store to zckChunk.valid with a path-sensitive check that a value that can be 1 is only '
        'stored under a digest-comparison success; guard facts (lookup hit, size equalities, not already valid) '
        'required at the copy call and the match marking; who-may-write over the download unit; failure arm '
        'typestate; copy loop extent.  Behaviour on damaged sources as data is not executed.')
    ck.declined += ['that a damaged source hashes differently (a runtime fact about SHA)', 'uthash internals']
    for config in ctx.configs():
        prog = ctx.prog(config)
        n = dlrules.valid_inventory(ck, prog, config, 'C08-a')
        ck.min_instances('stores to zckChunk.valid', n, 10)
        n = dlrules.digest_compares(ck, prog, config, 'C08-a')
        ck.min_instances('digest comparisons', n, 5)
        dlrules.copy_guard(ck, prog, config, 'C08-b')
        # ---- h  the copy keeps nothing in static storage: the bytes hashed are the bytes written (not another copy's)
        from . import c19 as _c19
        _c19.shared_scratch(ck, prog, config, 'C08-h', ('zck_copy_chunks',), 'chunk copy')
        # ---- i  a target write that fails or is short never counts as done (error discipline of the write wrapper and
        #         of the copy / zero-fill loops, shared with C12-a)
        from ..rules import errdisc as _ed8
        sites8, _cv8 = _ed8.analyse_sites(prog, want_site=lambda fn, c, label: fn.name in (
            'write_data', 'write_and_verify_chunk', 'zero_chunk') and label in ('write', 'write_data', 'read_data', 'seek_data'))
        k8 = 0
        for s8 in sorted(sites8, key=lambda r: (r['caller'].qname, r['call'].line)):
            k8 += 1
            for v8 in s8['violations'] or [None]:
                ck.ob('C08-i', 'R1.errdisc', s8['caller'].name, '%s#%d%s' % (s8['callee'], k8, (':' + v8['kind']) if v8 else ''),
                      v8 is None, 'failure of %s cannot reach a success exit of %s' % (s8['callee'], s8['caller'].name)
                      if v8 is None else '%s: %s' % (v8['kind'], v8['what']), s8['call'].file, s8['call'].line,
                      config=config, trivial=bool(s8.get('trivial')))
        ck.min_instances('checked I/O calls of the copy path', k8, 5)
        dlrules.match_guard(ck, prog, config, 'C08-c')
        n = dlrules.source_untouched(ck, prog, config, 'C08-d')
        ck.min_instances('write sites in dl.c', n, 4)
        dlrules.mismatch_arm(ck, prog, config, 'C08-e', 'write_and_verify_chunk', dlrules.CMP_FUNCS, TOP & ~Z, 'mismatch-arm')
        from ..rules import extra
        extra.check_nullable_key(ck, prog, config, 'C08-c')
        dlrules.chunk_loop(ck, prog, config, 'C08-e', 'zero_chunk', 'tgt_idx->comp_length', [('write_data', 3)],
                           seek_want=[('tgt', Lin({'tgt->data_offset': 1, 'tgt_idx->start': 1}))])
        dlrules.chunk_loop(ck, prog, config, 'C08-f', 'write_and_verify_chunk', 'src_idx->comp_length',
                           [('read_data', 2), ('hash_update', 3), ('write_data', 3)],
                           seek_want=[('src', Lin({'src->data_offset': 1, 'src_idx->start': 1})),
                                      ('tgt', Lin({'tgt->data_offset': 1, 'tgt_idx->start': 1}))])


CLAIM = {
    'technique': 'field-write inventory with path-sensitive guard facts (validity flag discipline), guard facts at '
                 'the copy/match sites, who-may-write over the download unit, failure-arm typestate, loop extent check',
    'text': 'static analysis: decides C08-a..f - a chunk can be marked valid only under a successful byte-wise digest '
            'comparison over digest_size (or the two named guarded exceptions); chunks are copied only on a lookup hit '
            'with equal stored and uncompressed sizes; the source is never written; a mismatch zero-fills and marks '
            'failed; the copy handles exactly the stored size at the chunk offsets. Hash behaviour on damaged data is '
            'not executed.',
    'note': 'trusted: clang 14 front end; uthash (HASH_FIND arguments are read from the macro invocation); '
            'access-path non-aliasing',
}

MUTANTS = [
    {'id': 'm10', 'desc': 'copy guard without comp_length equality', 'file': 'src/lib/dl/dl.c',
     'old': """        if(f && f->length == tgt_idx->length &&
           f->comp_length == tgt_idx->comp_length)""",
     'new': """        if(f && f->length == tgt_idx->length)""", 'expect': 'R2.guard zck_copy_chunks'},
    {'id': 'm11', 'desc': 'valid = 1 before the digest comparison', 'file': 'src/lib/dl/dl.c',
     'old': """    char *digest = hash_finalize(tgt, &check_hash);
    /* If chunk is invalid""", 'new': """    char *digest = hash_finalize(tgt, &check_hash);
    tgt_idx->valid = 1;
    /* If chunk is invalid""", 'expect': 'R3.validflag write_and_verify_chunk'},
    {'id': 'm12', 'desc': 'mismatch arm without zero fill', 'file': 'src/lib/dl/dl.c',
     'old': """        if(!zero_chunk(tgt, tgt_idx))
            return false;
        tgt_idx->valid = -1;
    } else {""", 'new': """        tgt_idx->valid = -1;
    } else {""", 'expect': 'R2.failure-arm write_and_verify_chunk'},
    {'id': 'm13', 'desc': 'copy writes to the source descriptor', 'file': 'src/lib/dl/dl.c',
     'old': """        if(!write_data(tgt, tgt->fd, buf, rb))
            return false;
        to_read -= rb;
    }
    char *digest""", 'new': """        if(!write_data(tgt, src->fd, buf, rb))
            return false;
        to_read -= rb;
    }
    char *digest""", 'expect': 'R7.who-may-write write_and_verify_chunk'},
    {'id': 'm08c', 'desc': 'match marking without the length equality', 'file': 'src/lib/dl/dl.c',
     'old': 'if(f && f->length == tgt_idx->length) {', 'new': 'if(f) {',
     'expect': 'R3.validflag zck_find_matching_chunks'},
    {'id': 'm08d', 'desc': 'uncompressed lookup keyed by the compressed digest', 'file': 'src/lib/dl/dl.c',
     'old': 'HASH_FIND(hhuncomp, src_info->htuncomp, tgt_idx->digest_uncompressed, tgt_idx->digest_size, f);',
     'new': 'HASH_FIND(hhuncomp, src_info->htuncomp, tgt_idx->digest, tgt_idx->digest_size, f);',
     'expect': 'R8.lookup zck_find_matching_chunks'},
    {'id': 'm08e', 'desc': 'copy seeks the target to the SOURCE chunk offset', 'file': 'src/lib/dl/dl.c',
     'old': 'if(!seek_data(tgt, tgt->data_offset + tgt_idx->start, SEEK_SET))\n        return false;\n    zckHash',
     'new': 'if(!seek_data(tgt, tgt->data_offset + src_idx->start, SEEK_SET))\n        return false;\n    zckHash',
     'expect': 'R4.extent write_and_verify_chunk'},
    {'id': 'm08f', 'desc': 'copy hashes a fixed block size', 'file': 'src/lib/dl/dl.c',
     'old': 'if(!hash_update(tgt, &check_hash, buf, rb))', 'new': 'if(!hash_update(tgt, &check_hash, buf, BUF_SIZE))',
     'expect': 'R4.chunk-loop write_and_verify_chunk'},
    {'id': 'm08g', 'desc': 'chunk compare with strncmp', 'file': 'src/lib/dl/dl.c',
     'old': 'if(memcmp(digest, src_idx->digest, src_idx->digest_size) != 0) {',
     'new': 'if(strncmp(digest, src_idx->digest, src_idx->digest_size) != 0) {', 'expect': 'R4.compare write_and_verify_chunk'},
    {'id': 'n08a', 'desc': 'skip test written as valid > 0', 'file': 'src/lib/dl/dl.c',
     'old': """        if(tgt_idx->valid == 1) {
            tgt_idx = tgt_idx->next;
            continue;
        }
        zckChunk *f = NULL;

        HASH_FIND(hh, src_info->ht, tgt_idx->digest, tgt_idx->digest_size, f);
        if(f && f->length""", 'new': """        if(tgt_idx->valid != 1) {
        } else {
            tgt_idx = tgt_idx->next;
            continue;
        }
        zckChunk *f = NULL;

        HASH_FIND(hh, src_info->ht, tgt_idx->digest, tgt_idx->digest_size, f);
        if(f && f->length""", 'expect': None},
]


# SESSION7 additions to the claim (clauses added in DESIGN section 12)
CLAIM['technique'] += '; static inventory restricted to the copy path'
CLAIM['text'] += ' C08-h: no function below zck_copy_chunks writes an object with static storage (the bytes hashed are the bytes written).'


# SESSION7b additions to the claim (round 8, DESIGN 12.6)
CLAIM['technique'] += '; error discipline of the target writes (R1) on the copy path'
CLAIM['text'] += ' C08-i: a failed or short target write cannot reach a success exit of the write wrapper or the copy loops.'

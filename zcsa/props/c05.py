"""C05  Range reassembly is verified and confined (mechanism part).

C05-a  validity discipline (R3) over every store to zckChunk.valid (shared with C08).
C05-b  dl_write_range arms the write window / tgt_check only for a not-yet-valid chunk at the current
       payload position with equal stored size and equal digest, seeks to data_offset + start, and only
       after the previous chunk was verified (C05-e).
C05-c  confinement by construction: frozen table of descriptor writers in the download code; payload
       write length = min(window, length); zero fill handles exactly the chunk extent.
C05-d  failure handling: set_chunk_valid's < 1 edge zero-fills, marks failed, returns false; dl_write_range
       and the callbacks turn that into an error return (R1).
C05-f  multipart state: payload is forwarded only in the data state with size = min(part length, available),
       and the part length is decreased by what was forwarded.
C05-i  fragmentation (one necessary condition): the search for the part-header terminator over a merged carry-over
       buffer starts at the unconsumed header, or at most (carried length - K) bytes into it, K being the number of
       trailing positions the search loop leaves unexamined.
C05-h  any boundary string: text from the response reaches regcomp() only through a quoting helper.
Declined: independence from fragmentation as a whole (state machine over all partitions of the byte stream).
"""
from ..flow import M1, NEG, Z, P1, POS, TOP, mask_str
from ..ir import strip, show, callee_name, const_value, walk
from ..rules import dlrules, errdisc
from ..rules.common import Lin, calls_of, pstr, SymRule, run_rule, atom_cmp, last_field


def run(ctx):
    ck = ctx.check
    ck.explanation = (
        'Verification and confinement mechanics of the download write path: validity-flag inventory with '
        'path-sensitive guard facts, arming guard of the write window as a fact typestate (not valid, at payload '
        'position, equal size, equal digest, previous chunk verified, seek to the chunk offset), frozen writer '
        'table with a symbolic min() bound on the payload write, zero-fill loop extent, failure arm typestate, '
        'error propagation (R1).  Fragmentation independence of the multipart scanner is declined.')
    ck.declined += ['independence from how the transport fragments the response (a property of the scanner state '
                    'machine over all byte-stream partitions)', 'boundary spelling variants accepted by the regex engine']
    for config in ctx.configs():
        prog = ctx.prog(config)
        n = dlrules.valid_inventory(ck, prog, config, 'C05-a')
        ck.min_instances('stores to zckChunk.valid', n, 10)
        dlrules.digest_compares(ck, prog, config, 'C05-a', units=('dl/dl.c', 'hash/hash.c'))
        dlrules.arming_guard(ck, prog, config, 'C05-b')
        dlrules.confinement(ck, prog, config, 'C05-c')
        dlrules.chunk_loop(ck, prog, config, 'C05-c', 'zero_chunk', 'tgt_idx->comp_length', [('write_data', 3)],
                           seek_want=[('tgt', Lin({'tgt->data_offset': 1, 'tgt_idx->start': 1}))])
        dlrules.mismatch_arm(ck, prog, config, 'C05-d', 'set_chunk_valid', 'validate_chunk', M1 | NEG | Z, 'failure-arm')
        # set_chunk_valid must fail (return false) on the failing edge: R1 verify + io provenance
        for which in ('verify', 'io'):
            sites, convs = errdisc.analyse_sites(
                prog, want_site=lambda fn, c, label: (fn.name, label) in (
                    ('set_chunk_valid', 'validate_chunk'), ('dl_write_range', 'set_chunk_valid'),
                    ('dl_write_range', 'dl_write'), ('multipart_extract', 'dl_write_range'),
                    ('zck_write_chunk_cb', 'dl_write_range'), ('zck_write_chunk_cb', 'multipart_extract'),
                    ('dl_write_range', 'dl_write_range')), which=which)
            k = 0
            for s in sorted(sites, key=lambda r: (r['caller'].qname, r['call'].line)):
                k += 1
                ck.ob('C05-d', 'R1.errdisc', s['caller'].name, '%s:%s#%d' % (s['callee'], which, k), not s['violations'],
                      'failure of %s never reaches a success exit of %s' % (s['callee'], s['caller'].name)
                      if not s['violations'] else '%s failure (%s) reaches a success exit of %s: %s' % (
                          s['callee'], which, s['caller'].name, s['violations'][0]['what']),
                      s['call'].file, s['call'].line, config=config, trivial=bool(s.get('trivial')))
            ck.min_instances('error-propagation sites of the download write path', k, 5)
        from ..rules import extra
        extra.check_dl_reset(ck, prog, config, 'C05-g')
        # ---- i  fragmentation: a resumed terminator search does not skip an unexamined position
        from ..rules import resume
        resume.check_resume(ck, prog, config, 'C05-i')
        # ---- h  any boundary string: response text is quoted before it becomes part of a pattern
        from ..rules import submatch
        ni = submatch.check_pattern_injection(ck, prog, config, 'C05-h')
        ck.min_instances('run-time strings inserted into compiled patterns', ni, 2)
        # ---- j  the data state never holds an exhausted part (fragment boundary exactly at the end of a part)
        from ..rules import partstate
        partstate.check_part_remaining(ck, prog, config, 'C05-j')
        from ..rules import extra as _x5l
        _x5l.check_no_forward_seek(ck, prog, config, 'C05-l', ('zck_write_chunk_cb', 'zck_write_zck_header_cb'), 'download path')
        _x5l.check_header_name_case(ck, prog, config, 'C05-m')
        _x5l.check_count_compare(ck, prog, config, 'C05-n')
        # ---- k  the carried-over part header: the recorded length never exceeds what was allocated for it
        from ..rules import sizepair
        sizepair.check_size_pairs(ck, prog, config, 'C05-k', min_exits=1, units=('dl/multipart.c', 'dl/dl.c'))
        # ---- f multipart data state
        me = prog.need_func('multipart_extract')

        class MP(SymRule):
            def __init__(s, prog, fn):
                SymRule.__init__(s, prog, fn)
                s.seen = 0

            def on_edge(s, c2, node, label, refined, ts):
                op, l, r = atom_cmp(node.e, label)
                lp, rp = s.P(l).replace('dl->mp->', 'mp->'), s.P(r).replace('dl->mp->', 'mp->')
                if lp.endswith('mp->state') and op == '!=' and const_value(r) == 0:
                    ts = ts | frozenset(['data-state'])
                if lp.endswith('mp->state') and op == '==' and const_value(r) == 0:
                    ts = frozenset(x for x in ts if x != 'data-state')
                if set([lp, rp]) == set(['mp->length', 'size']):
                    if (lp == 'mp->length' and op in ('<=', '<')) or (rp == 'mp->length' and op in ('>=', '>')):
                        ts = ts | frozenset(['len<=size'])
                    else:
                        ts = ts | frozenset(['size<len'])
                return ts

            def sym_assign(s, c2, lhs, rhs, op, ts, _P=None):
                P0 = s.P
                s_P = lambda e: P0(e).replace('dl->mp->', 'mp->')
                return s._assign(c2, lhs, rhs, op, ts, s_P)

            def _assign(s, c2, lhs, rhs, op, ts, P):
                if last_field(lhs) == 'state':
                    ts = frozenset(x for x in ts if x != 'data-state')
                    if rhs is not None and const_value(rhs) not in (None, 0):
                        pass
                if P(lhs) == 'size':
                    ts = frozenset(x for x in ts if x not in ('len<=size', 'size<len'))
                    if op == '=' and P(rhs) == 'mp->length':
                        ts = ts | frozenset(['size=len'])
                    elif op == '=':
                        ts = frozenset(x for x in ts if x != 'size=len') | frozenset(['size=avail'])
                if P(lhs) == 'mp->length' and op == '-=' and P(rhs) == 'size':
                    ts = ts | frozenset(['len-=size'])
                if P(lhs) == 'mp->length' and op == '=' and const_value(rhs) == 0 and 'size=len' in ts:
                    ts = ts | frozenset(['len-=size'])
                return ts

            def sym_call(s, c2, call, ts):
                if callee_name(call) == 'dl_write_range':
                    s.seen += 1
                    if 'data-state' not in ts and 'was-data' not in ts:
                        pass
                    if s.P(call.a[3]) != 'size' or s.P(call.a[2]) != 'i':
                        s.violate(c2, 'forward-args', 'payload forwarded as (%s, %s), expected (i, size)' % (
                            s.P(call.a[2]), s.P(call.a[3])), inst='args')
                    if not ('size=len' in ts or 'size<len' in ts):
                        s.violate(c2, 'forward-bound', 'payload forwarded with a size not bounded by the remaining '
                                  'part length', inst='bound')
                    if 'len-=size' not in ts:
                        s.violate(c2, 'forward-account', 'remaining part length is not decreased by the forwarded '
                                  'size', inst='account')
                    ts = frozenset(x for x in ts if x not in ('len-=size', 'size=len', 'size<len', 'len<=size'))
                return ts
        m = MP(prog, me)
        run_rule(prog, me, m)
        ck.require(m.seen >= 1, 'multipart_extract no longer forwards payload to dl_write_range')
        ck.ob('C05-f', 'R6.mp-state', me.name, 'payload-forward', not m.violations,
              'payload forwarded as (i, size) with size = min(part length, available) and the part length decreased '
              'by it' if not m.violations else m.violations[0].msg, me.file,
              m.violations[0].node.line if m.violations else me.line,
              path=m.violations[0].path if m.violations else None, config=config)


CLAIM = {
    'technique': 'field-write inventory + guard-fact typestate on the arming site, who-may-write table with symbolic '
                 'min() bound, loop extent check, failure-arm typestate, call-site error discipline, pattern-injection taint rule (response text reaches regcomp only through a quoting helper), resumed-search start offset against the unexamined tail (linear, loops unrolled twice)',
    'text': 'static analysis: decides C05-a..f (mechanism) - chunks become valid only under a digest comparison; the '
            'write window is armed only for the matching not-yet-valid chunk after the previous one was verified, '
            'with a seek to its offset; only four named sites write to the target and the payload write is bounded '
            'by the window; a failed chunk is zero-filled over exactly its extent, marked failed and reported. '
            'Fragmentation independence of the multipart scanner is NOT decided. C05-h/i: the boundary is quoted before it becomes part of a pattern; a resumed terminator search never skips an unexamined position.',
    'note': 'trusted: clang 14 front end; access-path non-aliasing (chk / tgt_chk / dl->tgt_check are names, not '
            'proven distinct objects); write_data/seek_data summaries',
}

MUTANTS = [
    {'id': 'm05r', 'desc': 'resumed terminator search skips one position too many (seeded c05)', 'file': 'src/lib/dl/multipart.c',
     'old': '', 'new': '',
     'edits': [('src/lib/dl/multipart.c', """    char *buf = b;
    bool alloc_buf = false;
""", """    char *buf = b;
    bool alloc_buf = false;
    size_t scanned = 0;
"""), ('src/lib/dl/multipart.c', """        memcpy(buf + mp->buffer_len, b, l);
""", """        memcpy(buf + mp->buffer_len, b, l);
        if(mp->buffer_len > 3)
            scanned = mp->buffer_len - 3;
"""), ('src/lib/dl/multipart.c', """        char *j = i;
""", """        char *j = i + scanned;
        scanned = 0;
""")], 'expect': 'R4.resume multipart_extract'},
    {'id': 'n05r', 'desc': 'resumed terminator search skips exactly the examined positions', 'file': 'src/lib/dl/multipart.c',
     'old': '', 'new': '',
     'edits': [('src/lib/dl/multipart.c', """    char *buf = b;
    bool alloc_buf = false;
""", """    char *buf = b;
    bool alloc_buf = false;
    size_t scanned = 0;
"""), ('src/lib/dl/multipart.c', """        memcpy(buf + mp->buffer_len, b, l);
""", """        memcpy(buf + mp->buffer_len, b, l);
        if(mp->buffer_len > 4)
            scanned = mp->buffer_len - 4;
"""), ('src/lib/dl/multipart.c', """        char *j = i;
""", """        char *j = i + scanned;
        scanned = 0;
""")], 'expect': None},
    {'id': 'm05q', 'desc': 'boundary pasted into the pattern unquoted (pre-fix form)', 'file': 'src/lib/dl/multipart.c',
     'old': '    char *quoted = quote_for_regex(boundary);', 'new': '    char *quoted = strdup(boundary);',
     'expect': 'R7.pattern-injection add_boundary_to_regex'},
    {'id': 'm60', 'desc': 'arming without the valid==1 skip', 'file': 'src/lib/dl/dl.c',
     'old': """            if(tgt_chk->valid == 1)
                continue;
            if(chk->comp_length""", 'new': """            if(chk->comp_length""", 'expect': 'R2.guard dl_write_range'},
    {'id': 'm61', 'desc': 'set_chunk_valid returns true on the failure arm', 'file': 'src/lib/dl/dl.c',
     'old': """        dl->tgt_check->valid = -1;
        return false;""", 'new': """        dl->tgt_check->valid = -1;
        dl->tgt_check = NULL;
        return true;""", 'expect': 'R1.errdisc set_chunk_valid'},
    {'id': 'm05s', 'desc': 'arming seeks to the range-index chunk start', 'file': 'src/lib/dl/dl.c',
     'old': 'dl->zck->data_offset + tgt_chk->start,', 'new': 'dl->zck->data_offset + chk->start,',
     'expect': 'R2.guard dl_write_range'},
    {'id': 'm05d', 'desc': 'arming without the digest comparison', 'file': 'src/lib/dl/dl.c',
     'old': """            if(chk->comp_length == tgt_chk->comp_length &&
               memcmp(chk->digest, tgt_chk->digest,
                      chk->digest_size) == 0) {""",
     'new': """            if(chk->comp_length == tgt_chk->comp_length) {""", 'expect': 'R2.guard dl_write_range'},
    {'id': 'm05t', 'desc': 'previous chunk not verified before re-arming', 'file': 'src/lib/dl/dl.c',
     'old': """        if(dl->tgt_check && !set_chunk_valid(dl))
            return false;""", 'new': """        if(dl->tgt_check && dl->tgt_check->valid == 0 && !set_chunk_valid(dl))
            return false;""", 'expect': 'R2.guard dl_write_range'},
    {'id': 'm05w', 'desc': 'payload write not bounded by the window', 'file': 'src/lib/dl/dl.c',
     'old': """        if(dl->write_in_chunk < length)
            wb = dl->write_in_chunk;
        else
            wb = length;""", 'new': """        wb = length;""", 'expect': 'R4.extent dl_write'},
    {'id': 'm05z', 'desc': 'zero fill writes a full block each time', 'file': 'src/lib/dl/dl.c',
     'old': """        if(!write_data(tgt, tgt->fd, buf, rb))
            return false;
        to_read -= rb;
    }
    return true;""", 'new': """        if(!write_data(tgt, tgt->fd, buf, BUF_SIZE))
            return false;
        to_read -= rb;
    }
    return true;""", 'expect': 'R4.chunk-loop zero_chunk'},
    {'id': 'm05n', 'desc': 'new writer in the header callback path', 'file': 'src/lib/dl/multipart.c',
     'old': """        memcpy(boundary, boundary_start, boundary_length);""",
     'new': """        memcpy(boundary, boundary_start, boundary_length);
        if(write(dl->zck->fd, boundary, 0) < 0)
            return 0;""", 'expect': 'R7.who-may-write multipart_get_boundary'},
    {'id': 'm05m', 'desc': 'multipart forwards the whole remaining buffer', 'file': 'src/lib/dl/multipart.c',
     'old': """            if(dl_write_range(dl, i, size) != size)""", 'new': """            if(dl_write_range(dl, i, end - i) != size)""",
     'expect': 'R6.mp-state multipart_extract'},
    {'id': 'n05a', 'desc': 'arming test order swapped', 'file': 'src/lib/dl/dl.c',
     'old': """            if(chk->comp_length == tgt_chk->comp_length &&
               memcmp(chk->digest, tgt_chk->digest,
                      chk->digest_size) == 0) {""",
     'new': """            if(memcmp(chk->digest, tgt_chk->digest, chk->digest_size) == 0 &&
               tgt_chk->comp_length == chk->comp_length) {""", 'expect': None},
]


# SESSION7 additions to the claim (clauses added in DESIGN section 12)
CLAIM['technique'] += '; part-remaining invariant of the multipart data state; size pairs of the carried-over part header'
CLAIM['text'] += ' C05-j: a pass through the data state forwards at least one byte and, when it uses the part up, also leaves the state. C05-k: the recorded length of the carried-over buffer never exceeds its allocation.'

MUTANTS += [
    {'id': 'm05j', 'desc': 'part that ends at the end of the buffer stays in the data state (seeded c04r6)', 'file': 'src/lib/dl/multipart.c',
     'old': """            if(mp->length <= size) {
                size = mp->length;
                mp->length = 0;
                mp->state = 0;
                header_start = i + size;
            } else {
                mp->length -= size;
            }""", 'new': """            if(size > mp->length) {
                size = mp->length;
                mp->state = 0;
                header_start = i + size;
            }
            mp->length -= size;""", 'expect': 'R5.part-remaining multipart_extract'},
]


# SESSION7b additions to the claim (round 8, DESIGN 12.6)
CLAIM['technique'] += '; no-forward-seek on the download path; case-insensitive matching of header names'
CLAIM['text'] += ' C05-l: the download path stores every received byte. C05-m: no case-sensitive comparison of the response header with a literal.'


# SESSION7c additions to the claim (round 9, DESIGN 12.7)
CLAIM['technique'] += '; count-compare lint on the callers of multipart_extract'
CLAIM['text'] += ' C05-n: the result of multipart_extract() (its own accounting) is tested against zero only.'

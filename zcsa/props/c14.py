"""C14  Random access: a chunk request does not depend on the request history (mechanism part).

C14-a  carried-state reset completeness: every zckComp field that the reader closure (comp_read and
       everything below it, backend slots resolved) both reads and writes is *killed* on every path of
       zck_get_chunk_data to its final comp_read: assigned a reset value unconditionally (directly or in the
       reset helpers it calls), or assigned under a guard G != NULL whose coupled invariant
       "G == NULL => field at its reset value" is maintained by every writer of G = NULL in the closure.
C14-b  positioning: the final comp_read is preceded, after the last operation that moves the descriptor,
       by seek_data(zck, zck_get_chunk_start(idx), SEEK_SET) for the same chunk that is stored into
       comp.data_idx; the dictionary branch seeks to the first chunk.
C14-c  zck_get_chunk_comp_data: seek to the chunk start, then one read_data into the caller's buffer.
Declined: slice equality per request sequence (needs execution).
"""
from ..flow import M1, NEG, Z, P1, POS
from ..ir import strip, strip_transparent, show, callee_name, callee_field, const_value, walk, walk_stmts, calls_in
from ..program import rel, all_exprs, unique_defs, is_assign_op
from ..rules.common import (FactRule, run_rule, calls_of, pstr, last_field, atom_cmp, assigned_fields)

# carried-by-design fields, with the reason they need no reset on the seek path
ALLOW = {
    'dict': 'the dictionary is meant to persist across requests', 'dict_size': 'part of the dictionary',
    'ddict_ctx': 'decoder dictionary, persists with the dictionary', 'cdict_ctx': 'writer side',
    'dctx': 'zstd decoder context, re-created by init()', 'cctx': 'writer side',
    'started': 're-set by comp_init()', 'type': 'configuration', 'level': 'configuration',
    'init': 'slot', 'set_parameter': 'slot', 'compress': 'slot', 'end_cchunk': 'slot', 'decompress': 'slot',
    'end_dchunk': 'slot', 'close': 'slot',
}
RESET_HELPERS = ('comp_reset_comp_data', 'comp_reset', 'comp_init', 'comp_close')
MOVERS = ('read_data', 'comp_read', 'import_dict', 'read', 'lseek')


def is_comp_field(e):
    e = strip(e)
    if e is None or e.k != 'mem':
        return False
    bt = (strip(e.a[0]).t or '') if e.a else ''
    return 'zckComp' in bt or 'struct zckComp' in bt


def modref(prog, funcs):
    reads, writes = {}, {}
    for fn in funcs:
        for ex in all_exprs(fn):
            lhs_nodes = set()
            for n in walk(ex):
                if n.k == 'bin' and is_assign_op(n.op):
                    l = strip(n.a[0])
                    if is_comp_field(l):
                        writes.setdefault(l.op, set()).add(fn.name)
                        if n.op == '=':
                            lhs_nodes.add(id(l))
                elif n.k == 'un' and n.op in ('++', '--') and is_comp_field(n.a[0]):
                    writes.setdefault(strip(n.a[0]).op, set()).add(fn.name)
            for n in walk(ex):
                if n.k == 'mem' and is_comp_field(n) and id(n) not in lhs_nodes:
                    reads.setdefault(n.op, set()).add(fn.name)
    return reads, writes


def coupled_fields(prog, funcs, guard):
    """Fields that every function of the closure assigning `guard = NULL` also resets to 0/NULL/false."""
    res = None
    where = []
    for fn in funcs:
        nulls = [(l, r) for (l, r, op, n) in assigned_fields(fn)
                 if is_comp_field(l) and strip(l).op == guard and op == '=' and r is not None and
                 (strip(r).k == 'null' or const_value(r) == 0)]
        if not nulls:
            continue
        zeroed = set(strip(l).op for (l, r, op, n) in assigned_fields(fn)
                     if is_comp_field(l) and op == '=' and r is not None and
                     (strip(r).k == 'null' or const_value(r) == 0))
        # memset(comp, 0, sizeof) resets everything
        where.append(fn.name)
        res = zeroed if res is None else res & zeroed
    return (res or set()), where


class KillRule(FactRule):
    name = 'R6.carried-state'
    interprocedural = True

    def __init__(self, prog, fn, carried, coupled, dirties=None):
        FactRule.__init__(self, prog, fn)
        self.carried = carried
        self.coupled = coupled     # guard field -> set of coupled fields
        self.dirties = dirties or {}    # reader entry called from the entry point -> carried fields its closure writes
        self.final_reads = 0

    def summarise(self, ctx, call, target, ts):
        if target.name in RESET_HELPERS and len(ctx.engine.stack) <= 3:
            return None
        if callee_field(call) is not None:
            # backend slots (init/close): opaque here
            return set([(ts, ctx.engine.plain_masks(target))])
        return set([(ts, ctx.engine.plain_masks(target))])

    def on_assign(self, ctx, lhs, rhs, op, value, ts):
        l = strip(lhs)
        if is_comp_field(l) and op == '=':
            ts = ts | frozenset(['killed:' + l.op])
            if ctx.fn is self.fn and l.op == 'data_idx':
                ts = frozenset(x for x in ts if not (isinstance(x, tuple) and x[0] == 'idx')) | \
                    frozenset([('idx', pstr(rhs, self.subst))])
        return ts

    def on_edge(self, ctx, node, label, refined, ts):
        op, l, r = atom_cmp(node.e, label)
        sl = strip(l)
        if is_comp_field(sl) and op == '==' and const_value(r) == 0 and sl.op in self.coupled:
            for f in self.coupled[sl.op] | set([sl.op]):
                ts = ts | frozenset(['killed:' + f])
        return ts

    def after_call(self, ctx, call, ts, mask):
        n = callee_name(call)
        if ctx.fn is self.fn:
            if n == 'seek_data':
                tgt = strip(call.a[2])
                who = None
                for x in walk(call.a[2]):
                    if x.k == 'call' and callee_name(x) == 'zck_get_chunk_start':
                        who = pstr(x.a[1], self.subst)
                ts = frozenset(x for x in ts if not (isinstance(x, tuple) and x[0] == 'pos'))
                if who is not None and const_value(call.a[3]) == 0:
                    ts = ts | frozenset([('pos', who)])
            elif n in MOVERS:
                ts = frozenset(x for x in ts if not (isinstance(x, tuple) and x[0] == 'pos'))
            if n in self.dirties:
                # a stream read (the dictionary import goes through comp_read) leaves its own state behind: a reset
                # made before it does not count for the request that follows
                ts = frozenset(x for x in ts if not (isinstance(x, str) and x.startswith('killed:') and
                                                     x[7:] in self.dirties[n]))
        if n == 'memset' and len(call.a) > 1:
            t = strip(call.a[1])
            if 'zckComp' in (t.t or ''):
                for f in self.carried:
                    ts = ts | frozenset(['killed:' + f])
        return ts

    def on_call(self, ctx, call, ts):
        if ctx.fn is self.fn and callee_name(call) == 'comp_read':
            # the final read is the one whose result is returned; check at every comp_read of the entry point
            self.final_reads += 1
            for f in sorted(self.carried):
                if 'killed:' + f not in ts:
                    self.violate(ctx, 'carried', 'reader state field comp.%s is carried over from the previous request: '
                                 'no reset on this path before comp_read()' % f, inst=f)
            pos = [x[1] for x in ts if isinstance(x, tuple) and x[0] == 'pos']
            idx = [x[1] for x in ts if isinstance(x, tuple) and x[0] == 'idx']
            if not pos:
                self.violate(ctx, 'unpositioned', 'comp_read() reachable without seek_data(zck, zck_get_chunk_start('
                             'chunk), SEEK_SET) after the last operation that moved the descriptor', inst='seek')
            elif not idx or pos[0] != idx[0]:
                self.violate(ctx, 'wrong-chunk', 'descriptor positioned at chunk %s but comp.data_idx = %s' % (
                    pos[0], idx[0] if idx else '(not set)'), inst='seek-chunk')
        if ctx.fn is self.fn and callee_name(call) == 'import_dict':
            pos = [x[1] for x in ts if isinstance(x, tuple) and x[0] == 'pos']
            if not pos or pos[0] != 'dict':
                self.violate(ctx, 'dict-unpositioned', 'import_dict() reachable without a seek to the dictionary chunk',
                             inst='seek-dict')
        return ts


def run(ctx):
    ck = ctx.check
    ck.explanation = (
        'Mod/ref analysis over the reader closure (comp_read and every function reachable from it, backend slots '
        'resolved) yields the zckComp fields that are both read and written, i.e. state carried from one request to '
        'the next; a kill typestate over all paths of zck_get_chunk_data (reset helpers inlined) requires each of '
        'them to be reset before the final comp_read, accepting a conditional reset only when the coupled invariant '
        'is maintained by every writer; positioning facts tie the final seek to the chunk stored in data_idx.')
    ck.declined += ['equality of the returned slice with the original content per request sequence']
    for config in ctx.configs():
        prog = ctx.prog(config)
        from ..rules import extra as _x14
        _x14.check_import_guard(ck, prog, config, 'C14-d')
        from . import c19 as _c19
        _c19.shared_scratch(ck, prog, config, 'C14-e', ('zck_get_chunk_data', 'zck_get_chunk_comp_data'), 'random access')
        # ---- g  whoever ends a chunk on the read side leaves the reader in a defined state (shared with C01-j): the
        #         last chunk and repeated requests depend on it
        from ..rules import extra as _x14g
        _x14g.check_end_of_data(ck, prog, config, 'C14-g')
        # ---- f  request history includes validity scans: they hand the context back with the descriptor at the data
        #         section and the running data hash re-initialised (shared with C09-b)
        from . import c09 as _c09
        for name_ in _c09.SCANS:
            fn_ = prog.need_func(name_)
            rr_ = _c09.RestoreRule(prog, fn_)
            run_rule(prog, fn_, rr_)
            ck.require(rr_.exits >= 1, '%s has no non-error exit' % name_)
            by_ = {}
            for v_ in rr_.violations:
                by_.setdefault(v_.inst, v_)
            for inst_, text_ in (('offset', 'descriptor restored to data_offset on every non-error exit'),
                                 ('hash-reinit', 'running data hash re-initialised on every non-error exit')):
                v_ = by_.get(inst_)
                ck.ob('C14-f', 'R6.restore', name_, inst_, v_ is None, text_ if v_ is None else v_.msg, fn_.file,
                      v_.node.line if v_ else fn_.line, path=v_.path if v_ else None, config=config)
        cr = prog.need_func('comp_read')
        seen, ext = prog.reachable_calls([cr])
        fp = prog.fp_targets()
        writer_slots = set(q for f in ('compress', 'end_cchunk') for q in fp.get(f, ()))
        reader_slots = set(q for f in ('init', 'decompress', 'end_dchunk', 'close', 'set_parameter')
                           for q in fp.get(f, ()))
        # the compress / end_cchunk slots are reached from comp_init() only under `temp_fd || no_write`,
        # which zck_init_adv_read never sets: they are the writer's and not part of the reader closure
        funcs = [prog.funcs[q] for q in seen if q not in (writer_slots - reader_slots)]
        ck.assumptions.append('compress/end_cchunk backend slots are not executed on read-mode contexts '
                              '(temp_fd and no_write are 0 after zck_init_adv_read)')
        reads, writes = modref(prog, funcs)
        carried = sorted(f for f in reads if f in writes and f not in ALLOW)
        ck.min_instances('carried zckComp fields in the reader closure', len(carried), 6)
        coupled = {}
        for g in ('data', 'dc_data'):
            cf, where = coupled_fields(prog, funcs + [prog.need_func(h) for h in RESET_HELPERS], g)
            coupled[g] = cf - set([g])
        entry = prog.need_func('zck_get_chunk_data')
        dirties = {}
        for rn in ('import_dict', 'comp_read'):
            rf = [f_ for f_ in prog.lib_funcs() if f_.name == rn]
            if len(rf) != 1:
                continue
            seen_r, _ = prog.reachable_calls(rf)
            fr = [prog.funcs[q] for q in seen_r if q not in (writer_slots - reader_slots)]
            _, w_r = modref(prog, fr)
            dirties[rn] = set(f for f in w_r if f in carried)
        ck.extra['dirtied_by'] = dict((k, sorted(v)) for k, v in dirties.items())
        kr = KillRule(prog, entry, carried, coupled, dirties)
        run_rule(prog, entry, kr)
        ck.require(kr.final_reads >= 1, 'zck_get_chunk_data no longer calls comp_read')
        by = {}
        for v in kr.violations:
            by.setdefault(v.inst, v)
        for f in carried:
            v = by.get(f)
            ck.ob('C14-a', 'R6.carried-state', entry.name, f, v is None,
                  'comp.%s (read in %s; written in %s) is reset on every path before comp_read()' % (
                      f, ', '.join(sorted(reads[f]))[:60], ', '.join(sorted(writes[f]))[:60]) if v is None else v.msg,
                  entry.file, v.node.line if v else entry.line, path=v.path if v else None, config=config,
                  sample={'field': f, 'readers': sorted(reads[f]), 'writers': sorted(writes[f])})
        ck.extra['carried_fields'] = carried
        ck.extra['coupled_invariants'] = dict((g, sorted(v)) for g, v in coupled.items())
        ck.extra['allow_listed'] = dict((f, ALLOW[f]) for f in sorted(reads) if f in writes and f in ALLOW)
        for inst, text in (('seek', 'the final comp_read is positioned by seek_data(zck, zck_get_chunk_start(chunk))'),
                           ('seek-chunk', 'the chunk sought and the chunk stored in comp.data_idx are the same'),
                           ('seek-dict', 'the dictionary import is preceded by a seek to the dictionary chunk')):
            v = by.get(inst)
            ck.ob('C14-b', 'R6.carried-state', entry.name, inst, v is None, text if v is None else v.msg, entry.file,
                  v.node.line if v else entry.line, path=v.path if v else None, config=config)
        from ..rules import extra
        extra.check_dict_consumed(ck, prog, config, 'C14-b')
        # ---- c
        cc = prog.need_func('zck_get_chunk_comp_data')

        class Raw(FactRule):
            def __init__(s, prog, fn):
                FactRule.__init__(s, prog, fn)
                s.n = 0

            def after_call(s, c2, call, ts, mask):
                n = callee_name(call)
                if c2.fn is s.fn and n == 'seek_data':
                    ok = any(x.k == 'call' and callee_name(x) == 'zck_get_chunk_start' and pstr(x.a[1]) == 'idx'
                             for x in walk(call.a[2])) and const_value(call.a[3]) == 0
                    ts = (ts | frozenset(['pos'])) if ok else ts - frozenset(['pos'])
                return ts

            def on_call(s, c2, call, ts):
                if c2.fn is s.fn and callee_name(call) == 'read_data':
                    s.n += 1
                    if 'pos' not in ts:
                        s.violate(c2, 'unpositioned', 'read_data() without seek to the chunk start', inst='seek')
                    if pstr(call.a[2]) != 'dst' or pstr(call.a[3]) != 'dst_size':
                        s.violate(c2, 'args', 'read_data(%s, %s): expected the caller\'s buffer and size' % (
                            pstr(call.a[2]), pstr(call.a[3])), inst='args')
                return ts
        rr = Raw(prog, cc)
        run_rule(prog, cc, rr)
        ck.require(rr.n >= 1, 'zck_get_chunk_comp_data no longer reads')
        ck.ob('C14-c', 'R6.carried-state', cc.name, 'seek+read', not rr.violations,
              'stored data: seek to zck_get_chunk_start(idx), then read_data(dst, dst_size)' if not rr.violations
              else rr.violations[0].msg, cc.file, rr.violations[0].node.line if rr.violations else cc.line,
              config=config)


CLAIM = {
    'technique': 'mod/ref analysis over the reader closure (carried fields) + kill typestate over all paths of the '
                 'random-access entry point with coupled-invariant acceptance; positioning typestate',
    'text': 'static analysis: decides C14-a..c (mechanism) - every zckComp field that the reader both reads and writes '
            'is reset on every path from zck_get_chunk_data to its final comp_read (a conditional reset is accepted '
            'only under an invariant every writer maintains); the read is positioned at the chunk stored in data_idx, '
            'the dictionary import at the dictionary chunk; stored-data requests seek then read. Slice equality per '
            'history is not executed.',
    'note': 'trusted: clang 14 front end; slot resolution; allow-list of fields that persist by design (dictionary, '
            'backend contexts, configuration, slots)',
}

MUTANTS = [
    {'id': 'm41', 'desc': 'data_eof reset removed', 'file': 'src/lib/comp/comp.c',
     'old': '    zck->comp.data_eof = false;\n', 'new': '', 'expect': 'R6.carried-state zck_get_chunk_data [data_eof]'},
    {'id': 'm14l', 'desc': 'data_loc reset only when a buffer exists', 'file': 'src/lib/comp/comp.c',
     'old': """    }
    zck->comp.data_size = 0;
    zck->comp.data_loc = 0;
    zck->comp.data_idx = NULL;""", 'new': """        zck->comp.data_loc = 0;
    }
    zck->comp.data_size = 0;
    zck->comp.data_idx = NULL;""", 'expect': 'R6.carried-state zck_get_chunk_data [data_loc]'},
    {'id': 'm14s', 'desc': 'seek skipped when data_idx already matches (seeded c14)', 'file': 'src/lib/comp/comp.c',
     'old': """    if(!seek_data(zck, zck_get_chunk_start(idx), SEEK_SET))
        return -1;
    zck->comp.data_idx = idx;""", 'new': """    if(zck->comp.data_idx != idx &&
       !seek_data(zck, zck_get_chunk_start(idx), SEEK_SET))
        return -1;
    zck->comp.data_idx = idx;""", 'expect': 'R6.carried-state zck_get_chunk_data [seek]'},
    {'id': 'm14d', 'desc': 'final seek to the dictionary chunk', 'file': 'src/lib/comp/comp.c',
     'old': """    if(!seek_data(zck, zck_get_chunk_start(idx), SEEK_SET))
        return -1;
    zck->comp.data_idx = idx;""", 'new': """    if(!seek_data(zck, zck_get_chunk_start(dict), SEEK_SET))
        return -1;
    zck->comp.data_idx = idx;""", 'expect': 'R6.carried-state zck_get_chunk_data [seek-chunk]'},
    {'id': 'm14r', 'desc': 'decoder buffers not reset', 'file': 'src/lib/comp/comp.c',
     'old': """    if(!comp_reset_comp_data(zck))
        return -1;
    if(!comp_reset(zck))
        return -1;
    if(!comp_init(zck))
        return -1;
    if(!seek_data(zck, zck_get_chunk_start(idx), SEEK_SET))""", 'new': """    if(!comp_reset_comp_data(zck))
        return -1;
    if(!seek_data(zck, zck_get_chunk_start(idx), SEEK_SET))""", 'expect': 'R6.carried-state zck_get_chunk_data [dc_data'},
    {'id': 'm42', 'desc': 'new carried field cached by comp_read', 'file': 'src/lib/comp/comp.c',
     'old': """        if(zck->comp.data_loc == zck->comp.data_idx->comp_length) {""",
     'new': """        if(zck->comp.data_size > zck->comp.dict_size && zck->comp.data_loc > 0)
            zck->comp.dict_size = zck->comp.dict_size;
        if(zck->comp.data_loc == zck->comp.data_idx->comp_length) {""", 'expect': None},
]


# SESSION7 additions to the claim (clauses added in DESIGN section 12)
CLAIM['technique'] += '; stream reads (dictionary import) un-kill the carried fields they write; static inventory restricted to random access'
CLAIM['text'] += ' C14-a (extended): a reset made before the dictionary import does not count. C14-e: random access keeps nothing in static storage.'


# SESSION7b additions to the claim (round 8, DESIGN 12.6)
CLAIM['technique'] += '; restore clauses of the scans and end-of-data typestate shared'
CLAIM['text'] += ' C14-f/g: validity scans hand the context back restored; a chunk end on the read side leaves a defined reader state.'

"""C16  Chunking is deterministic, content-defined and local (mechanism part).

C16-a  every path of zck_end_chunk that finishes a chunk (index_finish_chunk) contains buzhash_reset; the
       "too small" exit does not (the window keeps rolling across a refused boundary).
C16-b  no source of nondeterminism (time, random, pid, environment) is reachable from zck_write,
       zck_end_chunk, zck_close and header_create.
C16-d  automatic mode: zck_end_chunk is reached only with dc_data_size >= chunk_auto_min; the maximum-size
       disjunct of the boundary test is dc_data_size + i >= chunk_auto_max (the bytes of the chunk so far,
       independent of how the content was split into calls); no local caching dc_data_size is used after a
       call that changes it without being recomputed (R6.stale-cache).
C16-e  comp_init: chunk_auto_min <= chunk_auto_max (shared with C01-f).
C16-h  comp_init: chunk_auto_max <= chunk_max_size at every automatic-mode success exit (linear path constraints,
       Fourier-Motzkin), given the setter invariant chunk_min_size == 0 or chunk_min_size <= chunk_max_size,
       which is checked on the setters.
Declined: independence from write segmentation as a whole, equality of chunks across edits, zstd determinism.
"""
from ..flow import M1, NEG, Z, P1, POS, NONNEG
from ..ir import strip, strip_transparent, show, callee_name, const_value, walk, walk_stmts, calls_in
from ..program import rel, all_exprs, unique_defs
from ..rules.common import (FactRule, GuardRule, run_rule, calls_of, pstr, last_field, Lin, lin, atom_cmp)
from ..rules.stale import check_stale

NONDET = ('time', 'clock', 'clock_gettime', 'gettimeofday', 'rand', 'random', 'srand', 'srandom', 'rand_r',
          'drand48', 'lrand48', 'getpid', 'getppid', 'arc4random', 'getrandom', 'getentropy', 'getenv',
          'secure_getenv', 'gethostname', 'uname', 'localtime', 'gmtime', 'pthread_self', 'gettid')
ROOTS = ('zck_write', 'zck_end_chunk', 'zck_close', 'header_create')


def run(ctx):
    ck = ctx.check
    ck.explanation = (
        'Typestate over zck_end_chunk (reset of the rolling hash on chunk-finishing paths only), call-graph deny-list '
        'for nondeterminism below the write API, guard facts for the minimum size at the automatic chunk end, linear '
        'form of the maximum-size boundary test, stale-cache dataflow on zck_write (a local derived from '
        'dc_data_size must be recomputed after every call that changes it), ordering fact auto_min <= auto_max at '
        'the exits of comp_init.')
    ck.declined += ['independence from write segmentation as a whole (needs the invariant dc_data_size + i = bytes of '
                    'the chunk so far across calls)', 'identity of chunks across edits', 'zstd\'s own determinism']
    for config in ctx.configs():
        prog = ctx.prog(config)
        # ---- a
        ec = chunk_end_function(prog)
        FIN = finishers(prog)

        class Reset(FactRule):
            name = 'R6.buzhash-reset'

            def __init__(s, prog, fn):
                FactRule.__init__(s, prog, fn)
                s.finished = 0
                s.refused = 0

            def after_call(s, c2, call, ts, mask):
                n = callee_name(call)
                if c2.fn is s.fn and n == 'buzhash_reset':
                    ts = ts | frozenset(['reset'])
                if c2.fn is s.fn and n in FIN:
                    ts = ts | frozenset(['finished'])
                return ts

            def on_edge(s, c2, node, label, refined, ts):
                op, l, r = atom_cmp(node.e, label)
                if last_field(l) == 'dc_data_size' and last_field(r) == 'chunk_min_size' and op == '<':
                    ts = ts | frozenset(['too-small'])
                return ts

            def on_return(s, c2, node, mask, ts):
                if c2.fn is not s.fn or not (mask & NONNEG):
                    return ts
                if 'finished' in ts:
                    s.finished += 1
                    if 'reset' not in ts:
                        s.violate(c2, 'no-reset', 'chunk finished (index_finish_chunk) without buzhash_reset(): the '
                                  'next chunk\'s boundaries depend on the bytes of this one', inst='finish', node=node)
                if 'too-small' in ts and 'finished' not in ts:
                    s.refused += 1
                    if 'reset' in ts:
                        s.violate(c2, 'reset-on-refuse', 'rolling hash reset although the chunk end was refused (chunk '
                                  'too small): the window no longer rolls across the refused boundary', inst='refuse',
                                  node=node)
                return ts
        rr = Reset(prog, ec)
        run_rule(prog, ec, rr)
        ck.require(rr.finished >= 1, 'zck_end_chunk: no chunk-finishing success path found')
        by = {}
        for v in rr.violations:
            by.setdefault(v.inst, v)
        ck.ob('C16-a', 'R6.buzhash-reset', ec.name, 'finish', 'finish' not in by,
              '%d chunk-finishing exit state(s), each after buzhash_reset()' % rr.finished if 'finish' not in by
              else by['finish'].msg, ec.file, by['finish'].node.line if 'finish' in by else ec.line,
              path=by['finish'].path if 'finish' in by else None, config=config)
        ck.ob('C16-a', 'R6.buzhash-reset', ec.name, 'refuse', 'refuse' not in by,
              'the refused ("too small") exit leaves the rolling hash alone' if 'refuse' not in by else by['refuse'].msg,
              ec.file, by['refuse'].node.line if 'refuse' in by else ec.line, config=config)
        # ---- b
        roots = [prog.need_func(r) for r in ROOTS]
        seen, ext = prog.reachable_calls(roots)
        bad = [(w, f, c) for w in NONDET for f, c in ext.get(w, [])]
        ck.ob('C16-b', 'R7.effects', 'write API', 'no-nondeterminism', not bad,
              '%d functions reachable from %s; no clock/random/pid/environment call' % (len(seen), ', '.join(ROOTS))
              if not bad else 'nondeterminism source reachable from the write path: ' + ', '.join(
                  '%s() in %s' % (w, f.name) for w, f, c in bad), bad[0][2].file if bad else roots[0].file,
              bad[0][2].line if bad else roots[0].line, config=config)
        ck.min_instances('functions reachable from the write API', len(seen), 20)
        # ---- d
        zw = prog.need_func('zck_write')
        from ..rules.errdisc import state_machine_var
        sm = state_machine_var(zw)
        # the guard facts of C16-d are per path; an explicit state machine carries them through a state variable the
        # fact domain does not follow: undecided, never a finding
        ck.require(sm is None, 'zck_write keeps its progress in the state variable %s (%d constants): the guard rules of '
                   'C16-d cannot follow an explicit state machine (undecided, not a finding)' % (sm or ('?', 0)))
        patterns = [
            ('min-ok', lambda op, lp, rp: op == '>=' and lp.endswith('dc_data_size') and rp.endswith('chunk_auto_min')),
            ('manual', lambda op, lp, rp: lp.endswith('manual_chunk') and op == '!=' and rp == '#0'),
        ]

        class Auto(GuardRule):
            def guard_call(s, c2, call, ts):
                n = callee_name(call)
                if n == 'zck_end_chunk':
                    s.checked += 1
                    have = s.have(ts)
                    if 'manual' not in have and 'min-ok' not in have:
                        s.violate(c2, 'end-below-min', 'automatic chunk end reachable without dc_data_size >= '
                                  'chunk_auto_min', inst='min')
                if n == 'comp_write':
                    ts = s.kill(ts, 'zck->comp.dc_data_size')
                return ts
        ar = Auto(prog, zw, patterns, vocab=('dc_data_size', 'chunk_auto_min', 'manual_chunk'), inline=False)
        run_rule(prog, zw, ar)
        ck.require(ar.checked >= 2, 'zck_write: zck_end_chunk calls not found')
        ck.ob('C16-d', 'R2.guard', zw.name, 'auto-min', not ar.violations,
              'in automatic mode zck_end_chunk() is reached only with dc_data_size >= chunk_auto_min'
              if not ar.violations else ar.violations[0].msg, zw.file,
              ar.violations[0].node.line if ar.violations else zw.line,
              path=ar.violations[0].path if ar.violations else None, config=config)
        # ---- f  every byte queued in automatic mode went through the rolling hash
        from ..cfg import must_pass_edges
        from ..rules.common import node_containing
        g = prog.cfg(zw)
        scan_loops = []
        for st in walk_stmts(zw.body):
            if st.k in ('for', 'while', 'do'):
                inner = []
                for sub in walk_stmts(st.body):
                    for ex in ([sub.e] if getattr(sub, 'e', None) is not None else []):
                        inner += [c for c in calls_in(ex) if callee_name(c) == 'buzhash_update']
                cond_calls = [c for c in calls_in(st.e) if callee_name(c) == 'buzhash_update'] if getattr(st, 'e', None) is not None else []
                if inner or cond_calls:
                    scan_loops.append(st)
        ck.require(len(scan_loops) >= 1, 'zck_write: the loop that feeds buzhash_update() was not found')
        from ..cfg import dominates
        heads = [n for n in g.nodes if n.loop is not None and any(n.loop is st for st in scan_loops)]
        ck.require(bool(heads), 'zck_write: head node of the scanning loop not found')
        nq = 0
        for c in calls_of(zw, ('comp_write',)):
            nd = node_containing(g, c.uid)
            if nd is None:
                continue
            mp = must_pass_edges(g, nd)
            manual = False
            for b, lab in mp:
                op_, l_, r_ = atom_cmp(b.e, lab)
                if last_field(l_) == 'manual_chunk' and op_ == '!=' and const_value(r_) == 0:
                    manual = True
            if manual:
                continue
            nq += 1
            dominated = any(dominates(g, h, nd) for h in heads)
            ck.ob('C16-f', 'R2.scan-before-queue', zw.name, 'comp_write@auto#%d' % nq, dominated,
                  'automatic mode: this comp_write() is reached only through the scanning loop (inside it, or after its '
                  'exit): the bytes it queues were fed to buzhash_update()' if dominated else
                  'automatic mode: comp_write() is reachable without passing the loop that feeds buzhash_update(): bytes '
                  'are queued that the rolling hash never saw, so later boundaries depend on how the caller split the '
                  'data into write calls', c.file, c.line, config=config)
        ck.min_instances('comp_write calls of the automatic branch', nq, 2)
        # ---- g  an empty piece is accepted on the write path
        from ..rules import zerolen
        nz, nskip = zerolen.check_zero_length(ck, prog, config, 'C16-g')
        ck.ob('C16-g', 'R2.zero-length', 'write path', 'closure', True,
              '%d call site(s) passing a local length to a zero-rejecting function on the write path; %d site(s) passing a '
              'field skipped (object invariants are not decided)' % (nz, nskip), trivial=True, config=config)
        # canonical maximum-size test
        subst = unique_defs(zw)
        g = prog.cfg(zw)
        want = None
        canonical = False
        derived = []
        for nd in g.nodes:
            if nd.k != 'branch' or nd.id not in g.reachable:
                continue
            a = strip_transparent(nd.e)
            if a.k == 'bin' and a.op in ('>=', '>', '<', '<='):
                l, r = lin(a.a[0], subst), lin(a.a[1], subst)
                if l is None or r is None:
                    continue
                d = l - r
                if 'zck->chunk_auto_max' in (l.t.keys() | r.t.keys()):
                    # T = dc_data_size + <scan index> - chunk_auto_max; the same predicate in any spelling: T >= 0,
                    # its negation T < 0, or with the operands swapped (the index is whatever local the loop uses)
                    def is_T(x):
                        rest = dict((k, v) for k, v in x.t.items()
                                    if k not in ('zck->comp.dc_data_size', 'zck->chunk_auto_max'))
                        return x.c == 0 and x.t.get('zck->comp.dc_data_size') == 1 and \
                            x.t.get('zck->chunk_auto_max') == -1 and len(rest) == 1 and list(rest.values()) == [1] \
                            and '->' not in list(rest)[0]
                    if (is_T(d) and a.op in ('>=', '<')) or (is_T(-d) and a.op in ('<=', '>')):
                        canonical = True
                    else:
                        derived.append(show(a))
        stale = check_stale(ck, prog, config, 'C16-d', 'zck_write', ('dc_data_size',))
        max_caches = sorted(n for n, fs in stale.cache_defs.items() if 'chunk_auto_max' in fs)
        ck.ob('C16-d', 'R4.boundary', zw.name, 'max-test', canonical or bool(max_caches),
              'maximum-size boundary test is dc_data_size + i >= chunk_auto_max (bytes of the chunk so far)'
              if canonical else ('maximum-size boundary is tested through cached locals (%s); their freshness is '
                                 'decided by R6.stale-cache' % ', '.join(max_caches)
                                 if max_caches else
                                 'maximum-size boundary test has the form %s, not dc_data_size + i >= chunk_auto_max'
                                 % derived), zw.file, zw.line, config=config)
        # ---- i the chunk-end decision reads nothing that describes this call (sizes of the write calls)
        from ..rules import segtaint
        segtaint.check_segmentation_taint(ck, prog, config, 'C16-i', ('zck_end_chunk', ec.name))
        # ---- j the zck tool configures chunking from its command line alone
        from ..rules import extra as _x16
        _x16.check_tool_config_from_args(ck, prog, config, 'C16-j')
        # ---- e ordering fact at comp_init exits
        auto_bounds(ck, prog, config, 'C16-e')
        # ---- h effective maximum never above the configured one
        from ..rules import bounds
        bounds.check_bounds(ck, prog, config, 'C16-h')


def finishers(prog):
    """Names of the functions from which index_finish_chunk is reachable inside comp.c without going through
    the chunk-end function itself: calling one of them finishes the chunk."""
    fin = set(['index_finish_chunk'])
    changed = True
    cg = prog.callgraph()
    while changed:
        changed = False
        for q, sites in cg.items():
            f = prog.funcs[q]
            if f.name in fin or not f.static or not f.unit.endswith('comp/comp.c'):
                continue
            if any(t.name in fin for c, fs, exs in sites for t in fs):
                fin.add(f.name)
                changed = True
    return fin


def chunk_end_function(prog):
    """The function that finishes a chunk on behalf of zck_end_chunk(): reachable from it (or itself), calls
    the end_cchunk backend slot and (possibly through a static helper) index_finish_chunk."""
    from ..frontend import AnalysisBroken
    from ..ir import callee_field
    root = prog.need_func('zck_end_chunk')
    seen, ext = prog.reachable_calls([root])
    fin = finishers(prog)
    cands = []
    for q in seen:
        f = prog.funcs[q]
        names = set()
        for ex in all_exprs(f):
            for c in calls_in(ex):
                names.add(callee_name(c) or '')
                if callee_field(c):
                    names.add('slot:' + callee_field(c))
        if names & fin and 'slot:end_cchunk' in names and f.name != 'comp_init':
            cands.append(f)
    if len(cands) != 1:
        raise AnalysisBroken('chunk-end function not identified uniquely below zck_end_chunk: %s' % [f.name for f in cands])
    return cands[0]


def auto_bounds(ck, prog, config, clause):
    """Every success exit of comp_init in automatic write mode satisfies chunk_auto_min <= chunk_auto_max,
    derived with a minimal relational domain: facts A <= B from branch edges and copies, killed by writes."""
    ci = prog.need_func('comp_init')

    class Ord(FactRule):
        name = 'R9.order'

        def __init__(s, prog, fn):
            FactRule.__init__(s, prog, fn)
            s.exits = 0
            s.assigned = False

        def le(s, ts, a, b):
            return ('le', a, b) in ts or a == b

        def close(s, ts):
            # transitive closure (small)
            facts = set(x for x in ts if isinstance(x, tuple) and x[0] == 'le')
            changed = True
            while changed:
                changed = False
                for (_, a, b) in list(facts):
                    for (_, c, d) in list(facts):
                        if b == c and ('le', a, d) not in facts and a != d:
                            facts.add(('le', a, d))
                            changed = True
            return frozenset(x for x in ts if not (isinstance(x, tuple) and x[0] == 'le')) | frozenset(facts)

        def on_edge(s, c2, node, label, refined, ts):
            if c2.fn is not s.fn:
                return ts
            op, l, r = atom_cmp(node.e, label)
            lf, rf = last_field(l), last_field(r)
            if lf and rf and lf.startswith('chunk_') and rf.startswith('chunk_'):
                if op in ('<=', '<'):
                    ts = ts | frozenset([('le', lf, rf)])
                elif op in ('>=', '>'):
                    ts = ts | frozenset([('le', rf, lf)])
                ts = s.close(ts)
            return ts

        def on_assign(s, c2, lhs, rhs, op, value, ts):
            if c2.fn is not s.fn:
                return ts
            lf = last_field(lhs)
            if lf and lf.startswith('chunk_') and strip(lhs).k == 'mem':
                if lf in ('chunk_auto_min', 'chunk_auto_max'):
                    s.assigned = True
                ts = frozenset(x for x in ts if not (isinstance(x, tuple) and x[0] == 'le' and lf in x[1:]))
                rf = last_field(rhs) if rhs is not None and strip(rhs).k == 'mem' else None
                if op == '=' and rf and rf.startswith('chunk_'):
                    # copy: lf == rf, inherits rf's relations
                    new = set([('le', lf, rf), ('le', rf, lf)])
                    for x in ts:
                        if isinstance(x, tuple) and x[0] == 'le':
                            if x[1] == rf:
                                new.add(('le', lf, x[2]))
                            if x[2] == rf:
                                new.add(('le', x[1], lf))
                    ts = s.close(ts | frozenset(new))
                elif op == '=' and rhs is not None:
                    ts = ts | frozenset([('def', lf, show(strip(rhs)))])
            return ts

        def on_return(s, c2, node, mask, ts):
            if c2.fn is s.fn and mask & (P1 | POS) and any(
                    isinstance(x, tuple) and x[0] == 'def' and x[1] in ('chunk_auto_min', 'chunk_auto_max') for x in ts) \
                    or (c2.fn is s.fn and mask & (P1 | POS) and any(
                        isinstance(x, tuple) and x[0] == 'le' and 'chunk_auto_min' in x[1:] for x in ts)):
                s.exits += 1
                if not s.le(ts, 'chunk_auto_min', 'chunk_auto_max'):
                    s.violate(c2, 'unordered', 'comp_init can return with chunk_auto_min > chunk_auto_max (both are '
                              'clamped independently): the automatic chunking loop then refuses every boundary and '
                              'never consumes a byte', inst='auto_min<=auto_max', node=node)
                if getattr(s, 'need_min', False) and not s.le(ts, 'chunk_min_size', 'chunk_auto_max'):
                    s.violate(c2, 'unordered', 'comp_init can return with chunk_min_size > chunk_auto_max (a configured '
                              'minimum above four times the average): the boundary forced at the automatic maximum is '
                              'refused by the chunk-end function, i stays 0 and zck_write() never returns',
                              inst='min_size<=auto_max', node=node)
            return ts
    # does the chunk-end function still refuse a chunk that is below the configured minimum?  Only then can the
    # boundary forced at chunk_auto_max be refused, and chunk_min_size <= chunk_auto_max is needed for progress
    ce = chunk_end_function(prog)
    refusing = False
    for ex in all_exprs(ce):
        for n in walk(ex):
            if n.k == 'bin' and n.op in ('<', '<=', '>', '>='):
                fs = set(last_field(a) for a in n.a)
                if 'dc_data_size' in fs and 'chunk_min_size' in fs:
                    refusing = True
    o = Ord(prog, ci)
    o.need_min = refusing
    run_rule(prog, ci, o)
    ck.require(o.assigned, 'comp_init no longer computes chunk_auto_min / chunk_auto_max')
    if refusing:
        bad = [v for v in o.violations if v.inst == 'min_size<=auto_max']
        ck.ob(clause, 'R9.order', ci.name, 'min_size<=auto_max', not bad and o.exits >= 1,
              'every automatic-mode success exit of comp_init has chunk_min_size <= chunk_auto_max, so the boundary forced '
              'at the automatic maximum is never refused by %s() (%d exit states)' % (ce.name, o.exits)
              if not bad else bad[0].msg, ci.file, bad[0].node.line if bad else ci.line,
              path=bad[0].path if bad else None, config=config)
        o.violations = [v for v in o.violations if v.inst != 'min_size<=auto_max']
    else:
        ck.ob(clause, 'R9.order', ci.name, 'min_size<=auto_max', True, '%s() no longer refuses a chunk below the '
              'configured minimum: the ordering of chunk_min_size and chunk_auto_max is not needed' % ce.name,
              ci.file, ci.line, config=config, trivial=True)
    ck.ob(clause, 'R9.order', ci.name, 'auto_min<=auto_max', not o.violations and o.exits >= 1,
          'every automatic-mode success exit of comp_init has chunk_auto_min <= chunk_auto_max (%d exit states)' % o.exits
          if not o.violations else o.violations[0].msg, ci.file, o.violations[0].node.line if o.violations else ci.line,
          path=o.violations[0].path if o.violations else None, config=config)
    return o


CLAIM = {
    'technique': 'typestate on the chunk-finishing paths, call-graph deny-list, guard facts + linear form of the '
                 'boundary test, stale-cache dataflow with transitive mod sets, minimal relational (order) domain on '
                 'the chunk size bounds, dominance of the rolling-hash loop over every queueing call in automatic mode, zero-length contract closure over the write path, extended order facts (chunk_min_size <= chunk_auto_max), linear path constraints with Fourier-Motzkin elimination for chunk_auto_max <= chunk_max_size and the setter invariant',
    'text': 'static analysis: decides C16-a,b,d,e (mechanism) - the rolling hash is reset exactly on chunk-finishing '
            'paths; nothing below the write API reads clocks, randomness, pids or the environment; automatic chunk '
            'ends respect the minimum, the maximum-size test is on the bytes of the chunk so far and no cached copy '
            'of the fill level is used stale; the automatic bounds are ordered. Segmentation independence as a whole '
            'and locality across edits are not decided. C16-f/g: every byte queued in automatic mode passed the rolling hash; an empty piece is accepted on the write path.',
    'note': 'trusted: clang 14 front end; transitive mod sets over the resolved call graph; access-path non-aliasing',
}

MUTANTS = [
    {'id': 'm16h', 'desc': 'conflict resolved by raising the automatic maximum (seeded c16r4)', 'file': 'src/lib/comp/comp.c',
     'old': """            if(zck->chunk_auto_max < zck->chunk_min_size)
                zck->chunk_auto_max = zck->chunk_min_size;""",
     'new': """            if(zck->chunk_auto_max < zck->chunk_auto_min)
                zck->chunk_auto_max = zck->chunk_auto_min;""", 'expect': 'R9.bounds comp_init'},
    {'id': 'm16i', 'desc': 'clamp by the configured maximum dropped', 'file': 'src/lib/comp/comp.c',
     'old': """            if(zck->chunk_auto_max > zck->chunk_max_size)
                zck->chunk_auto_max = zck->chunk_max_size;""", 'new': '', 'expect': 'R9.bounds comp_init'},
    {'id': 'm16j', 'desc': 'minimum setter no longer compares with the maximum', 'file': 'src/lib/comp/comp.c',
     'old': """        if(value > zck->chunk_max_size) {""", 'new': """        if(value > CHUNK_DEFAULT_MAX) {""",
     'expect': 'R9.bounds'},
    {'id': 'n16h', 'desc': 'clamp written with the operands swapped', 'file': 'src/lib/comp/comp.c',
     'old': """            if(zck->chunk_auto_max > zck->chunk_max_size)
                zck->chunk_auto_max = zck->chunk_max_size;""",
     'new': """            if(zck->chunk_max_size < zck->chunk_auto_max)
                zck->chunk_auto_max = zck->chunk_max_size;""", 'expect': None},
    {'id': 'm16z', 'desc': 'comp_write no longer returns early for an empty piece (seeded c16r2)',
     'file': 'src/lib/comp/comp.c',
     'old': """    VALIDATE_WRITE_INT(zck);

    if(src_size == 0)
        return 0;

    char *dst = NULL;""", 'new': """    VALIDATE_WRITE_INT(zck);

    char *dst = NULL;""", 'expect': 'R2.zero-length zck_write'},
    {'id': 'n16z', 'desc': 'empty-piece test written as a positive guard around the body', 'file': 'src/lib/comp/comp.c',
     'old': """    if(zck->has_uncompressed_source && !hash_update(zck, &(zck->work_index_hash_uncomp), src, src_size))
        return -1;""", 'new': """    if(src_size > 0 && zck->has_uncompressed_source &&
       !hash_update(zck, &(zck->work_index_hash_uncomp), src, src_size))
        return -1;""", 'expect': None},
    {'id': 'm16n', 'desc': 'automatic maximum no longer raised to the configured minimum (pre-fix form)',
     'file': 'src/lib/comp/comp.c',
     'old': """            if(zck->chunk_auto_max < zck->chunk_min_size)
                zck->chunk_auto_max = zck->chunk_min_size;
""", 'new': '', 'expect': 'R9.order comp_init [min_size<=auto_max]'},
    {'id': 'm35', 'desc': 'buzhash_reset removed', 'file': 'src/lib/comp/comp.c',
     'old': '    buzhash_reset(&(zck->buzhash));\n', 'new': '', 'expect': 'R6.buzhash-reset comp_end_chunk [finish]'},
    {'id': 'm35b', 'desc': 'buzhash_reset before the too-small test', 'file': 'src/lib/comp/comp.c',
     'old': """    if(!force && zck->comp.dc_data_size < zck->chunk_min_size) {
        zck_log(ZCK_LOG_DDEBUG, "Chunk too small, refusing to end chunk");
        return zck->comp.dc_data_size;
    }

    buzhash_reset(&(zck->buzhash));""", 'new': """    buzhash_reset(&(zck->buzhash));
    if(!force && zck->comp.dc_data_size < zck->chunk_min_size) {
        zck_log(ZCK_LOG_DDEBUG, "Chunk too small, refusing to end chunk");
        return zck->comp.dc_data_size;
    }
""", 'expect': 'R6.buzhash-reset comp_end_chunk [refuse]'},
    {'id': 'm37', 'desc': 'too-small continue removed', 'file': 'src/lib/comp/comp.c',
     'old': """                if(zck->comp.dc_data_size < zck->chunk_auto_min) {
                    zck_log(ZCK_LOG_DDEBUG,
                            "Chunk too small, refusing to end chunk");
                    continue;
                }""", 'new': '', 'expect': 'R2.guard zck_write'},
    {'id': 'm38', 'desc': 'buzhash seeded from the clock', 'file': 'src/lib/comp/comp.c',
     'old': """            zck->buzhash_width = DEFAULT_BUZHASH_WIDTH;""",
     'new': """            zck->buzhash_width = DEFAULT_BUZHASH_WIDTH + (int)(time(NULL) & 1);""",
     'edits': None, 'expect': 'R7.effects'},
    {'id': 'm16m', 'desc': 'max test on the per-call index only', 'file': 'src/lib/comp/comp.c',
     'old': 'zck->comp.dc_data_size + i >= zck->chunk_auto_max) {', 'new': 'i >= zck->chunk_auto_max) {',
     'expect': 'R4.boundary zck_write'},
    {'id': 'm16o', 'desc': 'auto bounds clamp removed', 'file': 'src/lib/comp/comp.c',
     'old': """            if(zck->chunk_auto_min > zck->chunk_auto_max)
                zck->chunk_auto_min = zck->chunk_auto_max;
""", 'new': '', 'expect': 'R9.order comp_init'},
]
_m38 = [m for m in MUTANTS if m['id'] == 'm38'][0]
_m38['edits'] = [('src/lib/comp/comp.c', _m38['old'], _m38['new']),
                       ('src/lib/comp/comp.c', '#include <math.h>\n', '#include <math.h>\n#include <time.h>\n')]


# SESSION7 additions to the claim (clauses added in DESIGN section 12)
CLAIM['technique'] += '; segmentation-taint slice of the chunk-end decision (backward data/control slice inside the automatic loop; call-local sizes and positions are taint sources)'
CLAIM['text'] += ' C16-i: the decision where an automatic chunk ends reads only content, context state and the bytes of the chunk so far - never the size of the write call or the position inside its buffer.'


# SESSION7b additions to the claim (round 8, DESIGN 12.6)
CLAIM['technique'] += "; taint of the zck tool's option calls (input-derived values and conditions)"
CLAIM['text'] += ' C16-j: the zck tool configures chunking from its command line alone.'

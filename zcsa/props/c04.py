"""C04  Delta update end to end (protocol order in zckdl's main loop).

C04-a  completeness and exact length: ranges are requested only while chunks are missing, a failed fetch
       leaves with a non-zero status, exit status 0 requires no missing chunk, a whole-file gate and
       ftruncate(dst_fd, zck_get_length(tgt)).
C04-b  nothing present is fetched again: scan and (when a source is given) copy precede the first range
       request; the range is recomputed inside the loop.
C04-c  the match guard of zck_copy_chunks (C08-b) and the extents of range_add (C10-b).
C04-e  every range request of the fetch loop is made with fail_no_ranges set on the download context, so that a 200
       answer (whole file instead of the ranges) aborts and is retried with fewer ranges instead of being fed to the
       range write callback.
C04-f  a zckdl function that repositions the descriptor of the context being read hands it back at the offset the
       library left (saved with SEEK_CUR), not at a computed one: the library may have read ahead.
C04-d  the update loop reuses one zckDL: zck_dl_reset() resets every field the callbacks both read and write.
Declined: byte identity of the result and exactness of the bytes requested against a real server.
"""
from ..rules import dlmain, dlrules
from ..rules.common import calls_of
from ..ir import walk_stmts, calls_in, callee_name


def run(ctx):
    ck = ctx.check
    ck.explanation = (
        'Typestate over every path of zckdl main(): facts scanned / copied / reset / missing>0 / none-missing / '
        'truncated / validated are gained on calls and verdict edges; obligations at zck_get_missing_range() and at '
        'every exit whose status can be 0 (the exit status variable is followed by the class engine).  Plus error '
        'discipline of the fetch calls and the copy guard / range extents shared with C08 and C10.')
    ck.declined += ['byte identity of the reconstructed file', 'exactness of the bytes requested (composition of C08, '
                    'C10 and libcurl behaviour)', 'behaviour against a real server']
    for config in ctx.configs():
        prog = ctx.prog(config)
        dlmain.check_protocol(ck, prog, config, {'loop-condition': 'C04-a', 'complete': 'C04-a', 'truncate': 'C04-a',
                                                 'gate': 'C04-a', 'scan-first': 'C04-b', 'copy-first': 'C04-b',
                                                 'reject-200': 'C04-e', 'reset-failed': 'C04-a'})
        dlmain.check_dl_errors(ck, prog, config, 'C04-a')
        dlmain.check_fd_cursor(ck, prog, config, 'C04-f')
        # the range is recomputed inside the fetch loop
        fn = dlmain.dl_main(prog)
        inside = False
        for s in walk_stmts(fn.body):
            if s.k == 'while':
                cs = [callee_name(c) for st in walk_stmts(s.body) if st.e is not None for c in calls_in(st.e)]
                for st in walk_stmts(s.body):
                    if st.k == 'decl' and st.e is not None:
                        cs += [callee_name(c) for c in calls_in(st.e)]
                if 'zck_get_missing_range' in cs and 'dl_range' in cs:
                    inside = True
        ck.ob('C04-b', 'R8.loop-shape', 'zckdl main', 'range-recomputed', inside,
              'zck_get_missing_range() and dl_range() are in the same loop: the request is recomputed after each '
              'response' if inside else 'the missing range is not recomputed per fetch', fn.file, fn.line, config=config)
        dlrules.copy_guard(ck, prog, config, 'C04-c')
        # the request is recomputed from the chunk markings alone: no cursor kept in the context between requests
        from ..rules import extra as _x4
        _x4.check_range_purity(ck, prog, config, 'C04-c')
        # ---- g  a complete, well-formed multipart answer is accepted wherever the transport cuts it: the data state
        #         of the part scanner never holds an exhausted part (shared with C05-j)
        from ..rules import partstate
        partstate.check_part_remaining(ck, prog, config, 'C04-g')
        # ---- d  "repeatedly request": every per-request field of zckDL is reset between requests (shared with C05-g)
        from ..rules import extra
        extra.check_dl_reset(ck, prog, config, 'C04-d')


CLAIM = {
    'technique': 'protocol-order typestate over all paths of zckdl main() with the exit status followed by the class '
                 'engine; call-site error discipline; shared guard/extent rules, reset-completeness of zckDL (mod/ref of the callbacks vs. zck_dl_reset)',
    'text': 'static analysis: decides C04-a..c (protocol order) - scan and copy precede every range request, ranges '
            'are requested only while chunks are missing, fetch failures exit non-zero, and exit status 0 is reachable '
            'only with no chunk missing, through a whole-file checksum gate and after truncating the target to the '
            'new length. Byte identity against a server is not decided. C04-d: the update loop\'s zck_dl_reset() resets every per-request field. C04-e: range requests reject a 200 answer. C04-f: zckdl restores the library\'s file offset after downloading into its descriptor.',
    'note': 'trusted: clang 14 front end; libcurl; facts are per path (no join)',
}

MUTANTS = [
    {'id': 'm04c', 'desc': 'dl_bytes seeks to the lead length instead of the saved offset (pre-fix form)', 'file': 'src/zck_dl.c',
     'old': 'if(lseek(fd, resume, SEEK_SET) == -1) {', 'new': 'if(lseek(fd, start, SEEK_SET) == -1) {',
     'expect': 'R7.fd-cursor dl_bytes'},
    {'id': 'm04e', 'desc': 'range requests honour the command-line flag instead of always rejecting 200 (seeded c04r4)',
     'file': 'src/zck_dl.c', 'old': """        dl_ctx.max_ranges = range_attempt[0];
        dl_ctx.fail_no_ranges = 1;""", 'new': """        dl_ctx.max_ranges = range_attempt[0];
        dl_ctx.fail_no_ranges = arguments.fail_no_ranges;""", 'expect': 'R2.protocol zckdl main [reject-200]'},
    {'id': 'm23', 'desc': 'copy after the fetch loop', 'file': 'src/zck_dl.c',
     'old': """        if(zck_src && !zck_copy_chunks(zck_src, zck_tgt)) {
            exit_val = 10;
            goto out;
        }
        zck_reset_failed_chunks(zck_tgt);""", 'new': """        zck_reset_failed_chunks(zck_tgt);""",
     'expect': 'BROKEN'},
    {'id': 'm23b', 'desc': 'copy only when few chunks are missing', 'file': 'src/zck_dl.c',
     'old': """        if(zck_src && !zck_copy_chunks(zck_src, zck_tgt)) {""",
     'new': """        if(zck_src && zck_missing_chunks(zck_tgt) < 1000 && !zck_copy_chunks(zck_src, zck_tgt)) {""",
     'expect': 'R2.protocol zckdl main [copy-first]'},
    {'id': 'm04t', 'desc': 'early exit without truncation (seeded c04)', 'file': 'src/zck_dl.c',
     'old': """            if(ftruncate(dst_fd, zck_get_length(zck_tgt)) < 0) {
                perror(NULL);
                exit_val = 10;
                goto out;
            }
            exit_val = 0;
            goto out;""", 'new': """            goto out;""", 'expect': 'R2.protocol zckdl main [truncate]'},
    {'id': 'm04l', 'desc': 'fetch loop runs once', 'file': 'src/zck_dl.c',
     'old': """        while(zck_missing_chunks(zck_tgt) > 0) {""", 'new': """        do {""",
     'edits': None, 'expect': 'R2.protocol zckdl main'},
    {'id': 'm04f', 'desc': 'failed fetch ignored', 'file': 'src/zck_dl.c',
     'old': """            if(!retval) {
                exit_val = 1;
                goto out;
            }""", 'new': """            if(!retval)
                break;""", 'expect': 'zckdl main'},
    {'id': 'n04a', 'desc': 'reset before copy', 'file': 'src/zck_dl.c',
     'old': """        if(zck_src && !zck_copy_chunks(zck_src, zck_tgt)) {
            exit_val = 10;
            goto out;
        }
        zck_reset_failed_chunks(zck_tgt);""", 'new': """        zck_reset_failed_chunks(zck_tgt);
        if(zck_src && !zck_copy_chunks(zck_src, zck_tgt)) {
            exit_val = 10;
            goto out;
        }
        zck_reset_failed_chunks(zck_tgt);""", 'expect': None},
]
[m for m in MUTANTS if m['id'] == 'm04l'][0]['edits'] = [('src/zck_dl.c', "        while(zck_missing_chunks(zck_tgt) > 0) {", "        do {"),
                       ('src/zck_dl.c', """            if(!retval) {
                exit_val = 1;
                goto out;
            }
        }
    }""", """            if(!retval) {
                exit_val = 1;
                goto out;
            }
        } while(0);
    }""")]


# SESSION7 additions to the claim (clauses added in DESIGN section 12)
CLAIM['technique'] += '; part-remaining invariant of the multipart data state (linear values + Fourier-Motzkin); purity of the range computation'
CLAIM['text'] += ' C04-g: the data state of the part scanner never holds an exhausted part, so a complete multipart answer is accepted wherever the transport cuts it. C04-c (extended): zck_get_missing_range keeps no cursor in the context.'

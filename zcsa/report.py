"""Findings, known findings, evidence files and the exit-code contract.

exit 0  every obligation discharged (known findings are printed, not alarms)
exit 1  + line `VIOLATION property=<id> replay=<path>` for a finding that
        /verif/known_findings.json does not list
exit 2  ANALYSIS-BROKEN: an anchor vanished, a table no longer matches, an
        instance count fell below the confirmed minimum, a unit did not parse
"""
import json
import os
import sys
import time

from .frontend import AnalysisBroken, VERIF, REPO
from .program import rel

KNOWN = os.path.join(VERIF, 'known_findings.json')
# the self-test runs checks on scratch copies and must not touch the real evidence
_OUTDIR = os.environ.get('ZCSA_OUTDIR')
EVIDENCE = os.path.join(_OUTDIR, 'evidence') if _OUTDIR else os.path.join(VERIF, 'evidence')
OUT = os.path.join(_OUTDIR, 'out') if _OUTDIR else os.path.join(VERIF, 'out')


class Finding(object):
    def __init__(self, prop, clause, rule, function, instance, msg, file=None, line=0, path=None, extra=None):
        self.prop = prop
        self.clause = clause
        self.rule = rule
        self.function = function
        self.instance = instance
        self.msg = msg
        self.file = file
        self.line = line
        self.path = path or []
        self.extra = extra or {}

    def key(self):
        return (self.prop, self.rule, self.function, self.instance)

    def to_json(self):
        return {'property': self.prop, 'clause': self.clause, 'rule': self.rule, 'function': self.function,
                'instance': self.instance, 'message': self.msg, 'file': rel(self.file) if self.file else None,
                'line': self.line, 'path': self.path, 'extra': self.extra}


class Check(object):
    def __init__(self, prop, tier, seed=0):
        self.prop = prop
        self.tier = tier
        self.seed = seed
        self.t0 = time.time()
        self.findings = []
        self.obligations = []       # dicts
        self.notes = []
        self.samples = []
        self.rules = {}
        self.configs = []
        self.units = 0
        self.functions = 0
        self.explanation = ''
        self.assumptions = []
        self.declined = []
        self.self_test = None
        self.extra = {}
        self.informational = []

    # -- recording --
    def use_program(self, prog):
        if prog.config not in self.configs:
            self.configs.append(prog.config)
        self.units = max(self.units, len(prog.units))
        self.functions = max(self.functions, len(prog.funcs))
        for k, v in sorted(getattr(prog, 'renamed', {}).items()):
            t = 'normalisation: %s is analysed under its reference name %s (matched by fingerprint)' % (k, v)
            if t not in self.notes:
                self.notes.append(t)
        for name, into, f, line in getattr(prog, 'inlined_procs', []):
            t = 'normalisation: new static helper %s() expanded in %s() at %s:%s' % (name, into, rel(f) if f else '?', line)
            if t not in self.notes:
                self.notes.append(t)
        for name, f, line in getattr(prog, 'inlined_helpers', []):
            t = 'normalisation: pure helper %s() expanded at %s:%s' % (name, rel(f) if f else '?', line)
            if t not in self.notes:
                self.notes.append(t)

    def ob(self, clause, rule, function, instance, ok, msg, file=None, line=0, path=None,
           sample=None, trivial=False, extra=None, config=None):
        """Record one obligation (an instance of a rule on a construct)."""
        rec = {'clause': clause, 'rule': rule, 'function': function, 'instance': instance,
               'ok': bool(ok), 'where': ('%s:%d' % (rel(file), line)) if file else None, 'trivial': trivial}
        if config and config != 'main':
            rec['config'] = config
        self.obligations.append(rec)
        self.rules[rule] = self.rules.get(rule, 0) + 1
        if sample is not None and len(self.samples) < 12:
            self.samples.append(sample)
        elif ok and not trivial and len(self.samples) < 6:
            self.samples.append({'clause': clause, 'rule': rule, 'function': function, 'instance': instance,
                                 'where': rec['where'], 'verdict': msg})
        if not ok:
            f = Finding(self.prop, clause, rule, function, instance, msg, file, line, path, extra)
            # the same construct seen under several configurations is one finding
            if f.key() not in [x.key() for x in self.findings]:
                self.findings.append(f)
        return ok

    def info(self, clause, rule, function, instance, msg, file=None, line=0):
        self.informational.append({'clause': clause, 'rule': rule, 'function': function, 'instance': instance,
                                   'message': msg, 'where': ('%s:%d' % (rel(file), line)) if file else None})

    def note(self, text):
        self.notes.append(text)

    def require(self, cond, what):
        if not cond:
            raise AnalysisBroken(what)

    def min_instances(self, what, found, minimum):
        """Vacuity guard.  `minimum` is the number of instances confirmed by reading the reference tree; a
        behaviour-preserving refactoring may legitimately merge duplicated sites into a helper, so the floor that
        makes the analysis answer 'broken' is half of that number (at least one): the rule must still have matched
        a substantial part of what it was written for."""
        floor = max(1, minimum // 2)
        self.instance_counts = getattr(self, 'instance_counts', {})
        self.instance_counts[what] = {'found': found, 'confirmed_on_reference_tree': minimum, 'floor': floor}
        if found < floor:
            raise AnalysisBroken('%s: %d instance(s) found, %d confirmed on the reference tree, floor %d '
                                 '(rule would pass vacuously)' % (what, found, minimum, floor))

    # -- finishing --
    def finish(self):
        known = load_known()
        wall = time.time() - self.t0
        n_ob = len(self.obligations)
        n_ok = len([o for o in self.obligations if o['ok']])
        distinct = set()
        for o in self.obligations:
            if not o['trivial']:
                distinct.add((o['clause'], o['rule'], o['function'], o['instance']))
        print('zcsa %s (%s) configs=%s units=%d functions=%d' % (self.prop, self.tier, ','.join(self.configs),
                                                                  self.units, self.functions))
        for r, n in sorted(self.rules.items()):
            print('rule %-28s instances checked=%d' % (r, n))
        for n in self.notes:
            print('note: ' + n)
        for d in self.declined:
            print('declined: ' + d)
        new = []
        known_hits = []
        for f in self.findings:
            k = match_known(known, f)
            if k is not None:
                known_hits.append((f, k))
            else:
                new.append(f)
        for f in self.findings:
            print('FINDING %s %s %s:%d %s [%s]' % (f.clause, f.rule, rel(f.file) if f.file else '?', f.line, f.function, f.instance))
            print('        ' + f.msg)
            for step in f.path[:40]:
                print('          | ' + step)
        for i in self.informational:
            print('INFO    %s %s %s %s [%s] %s' % (i['clause'], i['rule'], i['where'], i['function'], i['instance'], i['message']))
        for f, k in known_hits:
            print('KNOWN-FINDING: property=%s %s (%s %s [%s])' % (self.prop, k.get('what', f.msg), f.rule, f.function, f.instance))
        code = 0
        replay = None
        if new:
            os.makedirs(OUT, exist_ok=True)
            replay = os.path.join(OUT, '%s.violation.json' % self.prop)
            with open(replay, 'w') as fh:
                json.dump({'property': self.prop, 'tier': self.tier,
                           'findings': [f.to_json() for f in new]}, fh, indent=1)
            print('VIOLATION property=%s replay=%s' % (self.prop, replay))
            code = 1
        ev = {
            'property_id': self.prop,
            'tier': self.tier,
            'seed': self.seed,
            'level': 'other',
            'wall_s': round(wall, 3),
            'violations': len(new),
            'coverage': {
                'explanation': self.explanation,
                'obligations': n_ob,
                'discharged': n_ok,
                'evaluations': n_ob,
                'distinct_nontrivial': len(distinct),
                'rule': 'one obligation per (clause, rule, function, construct) instance found in the parsed '
                        'program; an obligation is non-trivial when it was decided on a construct present in the '
                        'source (not by absence); distinct = distinct (clause, rule, function, instance) tuples',
                'exhaustive': True,
                'samples': self.samples if self.samples else [o for o in self.obligations[:5]],
                'rules': self.rules,
                'configs': self.configs,
                'units': self.units,
                'functions': self.functions,
                'findings': [f.to_json() for f in self.findings],
                'known_findings_reported': [f.instance for f, k in known_hits],
                'informational': self.informational[:40],
                'declined_clauses': self.declined,
                'obligation_list': self.obligations[:400],
                'checker_cmd': 'python3 -m zcsa check %s --tier %s' % (self.prop, self.tier),
                'trusted_base': ['clang 14 parser/type checker/JSON AST dumper', 'zcsa CFG construction and '
                                 'abstract interpreter (flow.py)', 'external-function summaries (flow.EXTERN_MASKS '
                                 'and per-rule tables)'],
            },
            'assumptions': self.assumptions + [
                'two syntactically different access paths do not alias (after substituting single-definition locals)',
                'code under #if branches not selected by the analysed configuration(s) is not seen',
            ],
        }
        if self.self_test is not None:
            ev['coverage']['self_test'] = self.self_test
        ev['coverage'].update(self.extra)
        os.makedirs(EVIDENCE, exist_ok=True)
        tmp = os.path.join(EVIDENCE, '%s.json.tmp%d' % (self.prop, os.getpid()))
        with open(tmp, 'w') as fh:
            json.dump(ev, fh, indent=1, default=str)
        os.replace(tmp, os.path.join(EVIDENCE, '%s.json' % self.prop))
        print('%s: obligations=%d discharged=%d findings=%d (known=%d new=%d) wall=%.2fs' % (
            self.prop, n_ob, n_ok, len(self.findings), len(known_hits), len(new), wall))
        return code


def load_known():
    try:
        with open(KNOWN) as fh:
            data = json.load(fh)
    except (OSError, ValueError):
        return []
    return data.get('findings', []) if isinstance(data, dict) else data


def match_known(known, f):
    for k in known:
        if k.get('status', 'known') != 'known':
            continue   # 'fixed' entries suppress nothing
        if (k.get('property') == f.prop and k.get('rule') == f.rule and
                k.get('function') == f.function and k.get('instance') == f.instance):
            return k
    return None


def broken(prop, tier, seed, msg):
    """Analysis-broken: still leave an evidence file that says so."""
    print('ANALYSIS-BROKEN property=%s %s' % (prop, msg))
    os.makedirs(EVIDENCE, exist_ok=True)
    ev = {'property_id': prop, 'tier': tier, 'seed': seed, 'level': 'other', 'wall_s': 0.0, 'violations': 0,
          'coverage': {'explanation': 'ANALYSIS-BROKEN: ' + msg, 'obligations': 0, 'discharged': 0,
                       'evaluations': 1, 'distinct_nontrivial': 0, 'samples': [msg]},
          'assumptions': []}
    with open(os.path.join(EVIDENCE, '%s.json' % prop), 'w') as fh:
        json.dump(ev, fh, indent=1)
    return 2

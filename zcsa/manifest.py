"""Generates /verif/MANIFEST.json from the table below (python3 -m zcsa manifest)."""
import json
import os

from .frontend import VERIF

# property -> (technique, level text, level note)
CLAIMS = {
    'C19': (
        'static-storage inventory + who-may-write check over the type-resolved clang AST (main and bundled configurations, aliases through stored addresses); libc deny-list; file-creation deny rule; descriptor-release typestate',
        'static analysis: exhaustive inventory of every object with static storage duration in the library and of '
        'every site that writes one; decides clause C19-a/b (no library-owned memory is shared between contexts '
        'except the logging settings, no process-global libc call), C19-c (a closed descriptor number is never kept in a context) and C19-f (files are created only through mkstemp()/tmpfile(), never under a name the library builds itself). Races inside dependencies and result equality '
        'with the serial run are not decided.',
        'trusted: clang 14 front end; write sites are recognised as assignments/increments rooted at the object or '
        'the object passed through a pointer-to-non-const parameter'),
}

CLAIMS['C12'] = (
    'call-site error-discipline analysis: path-sensitive abstract interpretation (sign/class domain) of every '
    'caller of the I/O-failure closure; -Werror=unused-result compile-fail witness; write-retry continuation rule (result symbols, bounded unrolling); short-count-only-at-EOF contract of the read wrapper by linear path values and Fourier-Motzkin; bounded-read end-of-file clause (a read whose count is what is left of a known total: end of file must not reach a success exit unless a test shows nothing was left); copy-loop extents shared with C08',
    'static analysis: for each of ~170 call sites whose callee can fail because of read/write/lseek/ftruncate, '
    'follows the failure classes of the callee\'s return convention (and short counts of read()/write()) through '
    'the caller on all CFG paths and shows they cannot reach a success exit; callee-side convention check; '
    'compile-fail witness for dropped must-check results; C12-e: a retried write passes source + result and count - result. C12-f: read_data() returns fewer bytes than requested only behind a read() == 0 edge. C12-a (extended): end of file inside a copy of known length is a failure. C12-h: the chunk copy moves exactly the stored size at the offsets of the chunk. Decides the error-propagation mechanism of C12 in '
    'library and tools, not faults inside dependencies, close() results or deferred ENOSPC.',
    'trusted: clang 14 front end; frozen return-convention table (checked against inferred return classes); '
    'external summaries of read/write/lseek/ftruncate; value classes {-1,<-1,0,1,>1}')

def _module_claims():
    import importlib
    for i in range(1, 21):
        pid = 'C%02d' % i
        if not os.path.exists(os.path.join(os.path.dirname(__file__), 'props', pid.lower() + '.py')):
            continue
        try:
            mod = importlib.import_module('zcsa.props.' + pid.lower())
        except Exception as ex:   # a broken module must not produce a manifest entry
            print('manifest: cannot import %s: %s' % (pid, ex))
            continue
        c = getattr(mod, 'CLAIM', None)
        if c:
            CLAIMS[pid] = (c['technique'], c['text'], c['note'])


def fix_commits():
    """fix: commits of /repo recorded in known_findings.json (status fixed)."""
    out = []
    try:
        data = json.load(open(os.path.join(VERIF, 'known_findings.json')))
        for f in data.get('findings', []):
            c = f.get('commit')
            if f.get('status') == 'fixed' and c and c not in out:
                out.append(c)
    except (OSError, ValueError):
        pass
    return out

# properties without a check yet / declined, with reason
NOT_APPLICABLE = {
}

PENDING_REASON = ('no structural clause of this property is decided by a check yet in this tree '
                  '(see DESIGN.md section 4 for the planned clauses); not claimed until its rule exists and is alarm-free')


def build():
    _module_claims()
    checks = []
    for pid in sorted(CLAIMS):
        tech, text, note = CLAIMS[pid]
        checks.append({
            'property_id': pid,
            'quick_cmd': 'python3 -m zcsa check %s --tier quick' % pid,
            'thorough_cmd': 'python3 -m zcsa check %s --tier thorough' % pid,
            'evidence_file': '/verif/evidence/%s.json' % pid,
            'replay_cmd_template': 'python3 -m zcsa explain {path}',
            'engine': 'zcsa',
            'technique': tech,
            'level_claimed': {'category': 'other', 'text': text, 'design_ref': 'DESIGN.md section 4 ' + pid},
            'level_note': note,
        })
    na = []
    for i in range(1, 21):
        pid = 'C%02d' % i
        if pid in CLAIMS:
            continue
        na.append({'property_id': pid, 'reason': NOT_APPLICABLE.get(pid, PENDING_REASON)})
    m = {
        'version': 1,
        'setup_cmd': 'python3 -m zcsa setup',
        'hooks': {
            'guard': 'ZCHUNK_VERIF',
            'enable': 'none: static analysis needs no source hooks; checks parse /repo with the real build flags '
                      '(-std=gnu11 -D_FILE_OFFSET_BITS=64 -DZCHUNK_ZSTD -DZCHUNK_OPENSSL)',
            'baseline_off_cmd': 'ninja -C /repo/_build && meson test -C /repo/_build',
            'source_commits': fix_commits(),
            'add_only': True,
        },
        'engines': [{
            'name': 'zcsa',
            'path': '/verif/zcsa',
            'serves_properties': sorted(CLAIMS),
            'kind_free_text': 'repository-specific static analyser: Python 3 over clang 14 -ast-dump=json; own CFG '
                              'with short-circuit decomposition, call graph with function-pointer resolution, '
                              'path-sensitive typestate/abstract-value engine with callee summaries, symbolic '
                              'linear extents, table/sibling extraction, two small abstract interpreters',
        }],
        'checks': checks,
        'not_applicable': na,
        'notes': 'Technique family: static analysis only. Exit 0 = all obligations discharged (known findings are '
                 'printed as KNOWN-FINDING); exit 1 + VIOLATION line = a finding not listed in '
                 '/verif/known_findings.json; exit 2 = ANALYSIS-BROKEN (anchor vanished / table mismatch / instance '
                 'count below the confirmed minimum / unit failed to parse). fix: commits in /repo are recorded in '
                 'known_findings.json with status "fixed".',
    }
    return m


def main():
    m = build()
    path = os.path.join(VERIF, 'MANIFEST.json')
    with open(path, 'w') as fh:
        json.dump(m, fh, indent=1)
        fh.write('\n')
    try:
        import jsonschema
        schema = json.load(open('/root/.vp/MANIFEST.schema.json'))
        jsonschema.validate(m, schema)
        print('MANIFEST.json written and valid: %d checks, %d not_applicable' % (len(m['checks']), len(m['not_applicable'])))
    except ImportError:
        print('MANIFEST.json written (jsonschema not available to validate)')
    return 0

"""Checker self-test: built-in mutants and negative controls.

Each mutant is a one-hunk textual edit applied to a *scratch copy* of the
repository sources (under $TMPDIR, removed immediately); the property's check is
then run on the copy (ZCSA_REPO) in a subprocess with its evidence/out
directories redirected, and must report the named rule/instance.  Negative
controls are behaviour-preserving edits that must stay silent.  A mutant whose
hunk no longer applies is skipped and counted.  Self-test results are evidence
only; they never change the verdict on /repo.
"""
import importlib
import os
import re
import shutil
import subprocess
import sys
import tempfile
from concurrent.futures import ThreadPoolExecutor

from .frontend import REPO, VERIF


def copy_repo(dst):
    for d in ('src', 'include'):
        shutil.copytree(os.path.join(REPO, d), os.path.join(dst, d))
    for f in ('meson.build', 'meson_options.txt', 'zchunk_format.txt'):
        if os.path.exists(os.path.join(REPO, f)):
            shutil.copy(os.path.join(REPO, f), os.path.join(dst, f))


def apply_edit(root, m):
    edits = m.get('edits') or [(m['file'], m['old'], m['new'])]
    for file, old, new in edits:
        p = os.path.join(root, file)
        try:
            s = open(p).read()
        except OSError:
            return 'file missing: ' + file
        if s.count(old) != 1:
            return 'hunk does not apply uniquely in %s (%d matches)' % (file, s.count(old))
        with open(p, 'w') as f:
            f.write(s.replace(old, new))
    return None


def run_one(prop, m):
    tmp = tempfile.mkdtemp(prefix='zcsa-mut-')
    try:
        copy_repo(tmp)
        err = apply_edit(tmp, m)
        if err:
            return {'id': m['id'], 'status': 'skipped', 'detail': err}
        env = dict(os.environ)
        env['ZCSA_REPO'] = tmp
        env['ZCSA_OUTDIR'] = os.path.join(tmp, '_zcsa_out')
        env['VERIF_TIER'] = 'quick'
        p = subprocess.run([sys.executable, '-m', 'zcsa', 'check', prop, '--tier', 'quick'], cwd=VERIF, env=env,
                           stdout=subprocess.PIPE, stderr=subprocess.STDOUT)
        out = p.stdout.decode(errors='replace')
        findings = [l for l in out.splitlines() if l.startswith('FINDING')]
        new = 'VIOLATION property=' in out
        broken = 'ANALYSIS-BROKEN' in out
        exp = m.get('expect')
        if exp is None:
            ok = (p.returncode == 0 and not new and not broken)
            detail = 'silent' if ok else 'negative control raised: ' + '; '.join(findings[:3] or [out[-300:]])
        elif exp == 'BROKEN':
            ok = broken and p.returncode == 2
            detail = 'analysis-broken as expected' if ok else 'expected analysis-broken, rc=%d' % p.returncode
        else:
            toks = exp.split()
            hit = [l for l in findings if all(t in l for t in toks)]
            ok = bool(hit) and new and p.returncode == 1
            detail = hit[0][:200] if hit else ('not reported; rc=%d; findings=%s' % (p.returncode, findings[:3]))
            if broken:
                detail += ' [analysis-broken: %s]' % [l for l in out.splitlines() if 'ANALYSIS-BROKEN' in l][:1]
        return {'id': m['id'], 'status': 'ok' if ok else 'FAILED', 'expect': exp, 'detail': detail,
                'desc': m.get('desc', '')}
    finally:
        shutil.rmtree(tmp, ignore_errors=True)


def run_for(prop, mod=None, jobs=4):
    if mod is None:
        mod = importlib.import_module('zcsa.props.' + prop.lower())
    muts = getattr(mod, 'MUTANTS', [])
    res = []
    with ThreadPoolExecutor(max_workers=jobs) as ex:
        for r in ex.map(lambda m: run_one(prop, m), muts):
            res.append(r)
    summary = {'mutants': len([m for m in muts if m.get('expect') is not None]),
               'negative_controls': len([m for m in muts if m.get('expect') is None]),
               'passed': len([r for r in res if r['status'] == 'ok']),
               'failed': [r for r in res if r['status'] == 'FAILED'],
               'skipped': [r for r in res if r['status'] == 'skipped'],
               'results': res}
    return summary


def main(args):
    props = args or ['C%02d' % i for i in range(1, 21)]
    rc = 0
    for p in props:
        path = os.path.join(os.path.dirname(__file__), 'props', p.lower() + '.py')
        if not os.path.exists(path):
            continue
        s = run_for(p)
        print('%s self-test: %d mutants, %d negative controls, passed %d, failed %d, skipped %d' % (
            p, s['mutants'], s['negative_controls'], s['passed'], len(s['failed']), len(s['skipped'])))
        for r in s['results']:
            print('   %-6s %-8s %s' % (r['id'], r['status'], r['detail'][:220]))
        if s['failed']:
            rc = 1
    return rc

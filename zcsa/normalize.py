"""Normalisation of the parsed program before any rule runs, so that behaviour-preserving spellings give the
same facts:

1. pure static helpers are expanded at their call sites.  A static function whose body is a tree of `if`s ending in
   `return <expr>` (local initialised declarations are substituted), with no loop, no call, no assignment and no
   access through its pointer parameters other than reads, is an expression of its parameters;  `x = helper(a)` is
   replaced by that expression with the arguments substituted (arguments must themselves be free of side effects).
   The control-flow builder then turns the conditional expression into branches, and every path rule sees
   `min(n, K)` written as a helper exactly as it sees the inline `if`.
"""
from .ir import E, S, walk, walk_stmts, strip

MAX_NODES = 60


def _pure(e):
    for n in walk(e):
        if n.k in ('call', 'stmtexpr'):
            return False
        if n.k == 'bin' and n.op.endswith('=') and n.op not in ('==', '!=', '<=', '>='):
            return False
        if n.k == 'un' and n.op in ('++', '--'):
            return False
    return True


def _clone(e, sub, line, file):
    """deep copy of e with parameter / local references replaced (sub: decl id -> expression)"""
    if e is None:
        return None
    if e.k == 'var' and e.decl in sub:
        return sub[e.decl]
    c = E(e.k, op=e.op, a=[_clone(x, sub, line, file) for x in e.a], t=e.t, dt=e.dt, val=e.val, decl=e.decl, dk=e.dk,
          arrow=e.arrow, file=file, line=line, uid=e.uid, post=e.post, body=e.body, macro=e.macro)
    return c


def _as_expr(stmts, sub, fn):
    """expression computed by a statement list that returns on every path, or None"""
    stmts = list(stmts)
    while stmts:
        s = stmts.pop(0)
        if s.k == 'null':
            continue
        if s.k == 'compound':
            stmts = list(s.body or []) + stmts
            continue
        if s.k == 'decl':
            if s.static or s.e is None or not _pure(s.e):
                return None
            sub = dict(sub)
            sub[s.var.decl] = ('local', s.e, dict(sub))
            continue
        if s.k == 'return':
            if s.e is None or not _pure(s.e):
                return None
            return ('ret', s.e, sub)
        if s.k == 'if':
            if not _pure(s.e):
                return None
            then = s.then if isinstance(s.then, list) else [s.then]
            els = (s.els if isinstance(s.els, list) else [s.els]) if s.els is not None else []
            a = _as_expr(then + stmts, sub, fn)
            b = _as_expr(els + stmts, sub, fn)
            if a is None or b is None:
                return None
            return ('if', s.e, sub, a, b)
        return None
    return None


def _build(tree, params, line, file, rtype, rdtype):
    def subst_map(sub):
        m = dict(params)
        for d, v in sub.items():
            if isinstance(v, tuple) and v[0] == 'local':
                m[d] = _clone(v[1], subst_map(v[2]), line, file)
        return m
    if tree[0] == 'ret':
        e = _clone(tree[1], subst_map(tree[2]), line, file)
        # the value is converted to the function's return type
        return E('cast', op='IntegralCast', a=[e], t=rtype, dt=rdtype, file=file, line=line, macro='implicit') \
            if (e.t or '') != (rtype or '') and not (rtype or '').rstrip().endswith('*') else e
    c = _clone(tree[1], subst_map(tree[2]), line, file)
    a = _build(tree[3], params, line, file, rtype, rdtype)
    b = _build(tree[4], params, line, file, rtype, rdtype)
    return E('cond', a=[c, a, b], t=rtype, dt=rdtype, file=file, line=line)


def pure_helpers(prog):
    from .program import rel
    known = set((r['unit'], r['name']) for r in reference(prog.config))
    out = {}
    for f in prog.funcs.values():
        if not f.static or f.body is None or not f.params:
            continue
        if (rel(f.unit), f.name) in known:
            continue       # a helper of the reference tree: the rules know it under its name
        if (f.rtype or '').strip() == 'void' or (f.rtype or '').rstrip().endswith('*'):
            continue
        if any((p.t or '').rstrip().endswith('*') for p in f.params):
            continue       # only scalar parameters: nothing can be reached through them
        if sum(1 for s in walk_stmts(f.body)) > 12:
            continue
        body = f.body if isinstance(f.body, list) else [f.body]
        tree = _as_expr(body, {}, f)
        if tree is None:
            continue
        out[f.qname] = (f, tree)
    return out


def inline_pure_helpers(prog):
    helpers = pure_helpers(prog)
    if not helpers:
        return []
    by_unit = {}
    for q, (f, tree) in helpers.items():
        by_unit.setdefault(f.unit, {})[f.name] = (f, tree)
    done = []

    def rewrite(e, unit):
        if e is None:
            return None
        e.a = [rewrite(x, unit) for x in e.a]
        if e.k == 'call' and e.a:
            c = strip(e.a[0])
            if c is not None and c.k == 'var' and c.dk == 'FunctionDecl' and c.op in by_unit.get(unit, {}):
                f, tree = by_unit[unit][c.op]
                args = e.a[1:]
                if len(args) == len(f.params) and all(_pure(a) for a in args):
                    params = dict((p.decl, E('cast', op='IntegralCast', a=[a], t=p.t, dt=p.dt, file=e.file, line=e.line,
                                             macro='implicit') if (a.t or '') != (p.t or '') else a)
                                  for p, a in zip(f.params, args))
                    new = _build(tree, params, e.line, e.file, f.rtype, f.rdtype)
                    if sum(1 for _ in walk(new)) <= MAX_NODES:
                        done.append((f.name, e.file, e.line))
                        return new
        return e

    for g in prog.funcs.values():
        if g.body is None or g.unit not in by_unit:
            continue
        for s in walk_stmts(g.body):
            if s.e is not None:
                s.e = rewrite(s.e, g.unit)
            if s.inc is not None and not isinstance(s.inc, (S, list)):
                s.inc = rewrite(s.inc, g.unit)
    return done


# ------------------------------------------------------------------------------------------------------------
# 2. reference fingerprints and rename resolution
"""
The rules name functions of the reference tree (tables of return conventions, anchors of typestates).  Renaming an
internal function is a behaviour-preserving edit; so that it does not blind a rule, functions of the current tree
that are missing from the reference list are matched to reference functions that are missing from the current tree,
by fingerprint: same unit (static) or any library unit (internal linkage), identical return and parameter types,
and the most similar set of callees and callers (Jaccard, computed after already resolved renames; accepted only
above a threshold and with a margin over the runner-up).  A matched function is given its reference name throughout
the IR (definition and every reference); reports print the reference name and the evidence lists the mapping.
Functions that stay unmatched are new helpers (kept under their own names) or removed functions (a rule that needs
one answers analysis-broken).
"""
import json
import os

REF_PATH = os.path.join(os.path.dirname(os.path.abspath(__file__)), 'reference.json')


def _callees(f):
    from .ir import callee_name, calls_in
    from .program import all_exprs
    out = set()
    for ex in all_exprs(f):
        for c in calls_in(ex):
            n = callee_name(c)
            if n:
                out.add(n)
    return out


def fingerprint(prog):
    from .program import rel
    out = []
    for f in sorted(prog.funcs.values(), key=lambda x: x.qname):
        if f.body is None:
            continue
        out.append({'name': f.name, 'unit': rel(f.unit), 'static': bool(f.static), 'rtype': f.rtype,
                    'ptypes': [p.t for p in f.params], 'callees': sorted(_callees(f)),
                    'public': any('visibility' in str(a) for a in (f.attrs or []))})
    return out


def build_reference(configs=('main', 'bundled-hash')):
    from .program import Program
    data = {}
    for c in configs:
        pr = Program(c, normalize=False)
        data[c] = fingerprint(pr)
        data[c + ':records'] = dict((k, [[f[0], f[1]] for f in v]) for k, v in pr.records.items())
    json.dump(data, open(REF_PATH, 'w'), indent=0, sort_keys=True)
    return dict((c, len(v)) for c, v in data.items())


_REF = None


def reference(config):
    global _REF
    if _REF is None:
        try:
            _REF = json.load(open(REF_PATH))
        except (OSError, ValueError):
            _REF = {}
    return _REF.get(config) or _REF.get('main') or []


def resolve_renames(prog):
    from .program import rel
    ref = reference(prog.config)
    if not ref:
        return {}
    ref_by = {}
    for r in ref:
        ref_by[(r['unit'], r['name'])] = r
    cur = [f for f in prog.funcs.values() if f.body is not None]
    cur_by = dict(((rel(f.unit), f.name), f) for f in cur)
    missing = [r for k, r in ref_by.items() if k not in cur_by]
    new = [f for f in cur if (rel(f.unit), f.name) not in ref_by]
    if not missing or not new:
        return {}
    # callers in the current tree and in the reference
    ref_callers = {}
    for r in ref:
        for c in r['callees']:
            ref_callers.setdefault(c, set()).add(r['name'])
    cur_callees = dict((f.qname, _callees(f)) for f in cur)
    cur_callers = {}
    for f in cur:
        for c in cur_callees[f.qname]:
            cur_callers.setdefault(c, set()).add(f.name)
    mapping = {}       # current name -> reference name (per unit for statics)
    changed = True
    rounds = 0
    while changed and rounds < 4:
        changed = False
        rounds += 1
        ren = dict((cn, rn) for (u, cn), rn in mapping.items())

        def canon(names):
            return set(ren.get(n, n) for n in names)
        for r in list(missing):
            cands = []
            for f in new:
                if (rel(f.unit), f.name) in mapping:
                    continue
                if bool(f.static) != r['static']:
                    continue
                if r['static'] and rel(f.unit) != r['unit']:
                    continue
                if f.rtype != r['rtype'] or [p.t for p in f.params] != r['ptypes']:
                    continue
                a = canon(cur_callees[f.qname]) | set('<-' + x for x in canon(cur_callers.get(f.name, ())))
                b = set(r['callees']) | set('<-' + x for x in ref_callers.get(r['name'], ()))
                j = len(a & b) / float(len(a | b)) if (a | b) else 1.0
                cands.append((j, f))
            if not cands:
                continue
            cands.sort(key=lambda x: -x[0])
            best = cands[0]
            second = cands[1][0] if len(cands) > 1 else 0.0
            if best[0] >= 0.5 and best[0] - second >= 0.15:
                mapping[(rel(best[1].unit), best[1].name)] = r['name']
                missing.remove(r)
                changed = True
    if not mapping:
        return {}
    # apply: definitions and references
    for (u, cn), rn in mapping.items():
        f = cur_by[(u, cn)]
        old_q = f.qname
        f.name = rn
        f.qname = old_q[:-len(cn)] + rn if old_q.endswith(cn) else rn
        del prog.funcs[old_q]
        prog.funcs[f.qname] = f
        prog.by_name[cn] = [x for x in prog.by_name.get(cn, []) if x is not f]
        prog.by_name.setdefault(rn, []).append(f)
    from .program import all_exprs
    for g in prog.funcs.values():
        if g.body is None:
            continue
        gu = rel(g.unit)
        for ex in all_exprs(g):
            for n in walk(ex):
                if n.k == 'var' and n.dk == 'FunctionDecl':
                    k = (gu, n.op)
                    if k in mapping:
                        n.op = mapping[k]
                    else:
                        # reference to a renamed non-static function from another unit
                        for (u, cn), rn in mapping.items():
                            if cn == n.op and not cur_by[(u, cn)].static:
                                n.op = rn
    return dict(('%s::%s' % k, v) for k, v in mapping.items())


# ------------------------------------------------------------------------------------------------------------
# 3. procedure inlining of new static helpers
"""
Extracting a block into a new static helper is the most common behaviour-preserving edit.  A static function that
the reference tree does not know (after rename resolution) is expanded at its call sites, at the level of the IR:

    s(... f(a, &x) ...)      ->     T p = a;  RT ret;  { body of f with *q -> x, `return e` -> ret = e; goto end }
                                    end: ;  s(... ret ...)

only where the call is evaluated first and unconditionally in its statement (expression statements, initialisers,
returns, `if` conditions; the left-most operand of && / ||), so that hoisting it in front of the statement keeps the
order of effects.  Pointer parameters whose argument is `&lvalue` and that the helper never re-seats are substituted
by reference; the others are copied into fresh locals.  Helpers with labels, static locals, or that call themselves
are left alone, as are call sites in loop conditions.  A helper whose every reference was expanded is dropped from the
program, so that rules which look for "the function that does X" see one function, as on the reference tree.
Everything is keyed on decl ids; clones get fresh ids.  The unchanged tree has no new helpers: nothing happens there.
"""

_INL = [0]


def _is_pure_lvalue(e):
    e = strip(e)
    if e is None:
        return False
    if e.k == 'var':
        return True
    if e.k == 'mem':
        return _is_pure_lvalue(e.a[0])
    if e.k == 'un' and e.op == '*':
        return _is_pure_lvalue(e.a[0]) and strip(e.a[0]).k == 'var'
    if e.k == 'idx':
        return _is_pure_lvalue(e.a[0]) and _pure(e.a[1])
    return False


def _stmt_count(body):
    return sum(1 for _ in walk_stmts(body))


def _helper_ok(f):
    if not f.static or f.body is None:
        return False
    if _stmt_count(f.body) > 70:
        return False
    for s in walk_stmts(f.body):
        if s.k == 'decl' and s.static:
            return False
    from .ir import callee_name, calls_in
    from .program import all_exprs
    for ex in all_exprs(f):
        for c in calls_in(ex):
            if callee_name(c) == f.name:
                return False
        for n in walk(ex):
            if n.k == 'stmtexpr':
                return False
    return True


def _reseated(f, p):
    """does the helper assign to its parameter p itself?"""
    from .program import all_exprs
    for ex in all_exprs(f):
        for n in walk(ex):
            if (n.k == 'bin' and n.op.endswith('=') and n.op not in ('==', '!=', '<=', '>=')) or \
                    (n.k == 'un' and n.op in ('++', '--')):
                l = strip(n.a[0])
                if l is not None and l.k == 'var' and l.decl == p.decl:
                    return True
    return False


def _address_taken(f, p):
    from .program import all_exprs
    for ex in all_exprs(f):
        for n in walk(ex):
            if n.k == 'un' and n.op == '&':
                l = strip(n.a[0])
                if l is not None and l.k == 'var' and l.decl == p.decl:
                    return True
    return False


def _clone_e(e, vmap, refsub):
    if e is None:
        return None
    if e.k == 'un' and e.op == '*' and e.a:
        b = e.a[0]
        while b is not None and b.k == 'cast' and b.a and b.macro != 'explicit':
            b = b.a[0]
        if b is not None and b.k == 'var' and b.decl in refsub:
            return _clone_e(refsub[b.decl], {}, {})
    if e.k == 'mem' and e.arrow and e.a:
        b = e.a[0]
        while b is not None and b.k == 'cast' and b.a and b.macro != 'explicit':
            b = b.a[0]
        if b is not None and b.k == 'var' and b.decl in refsub:
            # p->f with p bound to &x  is  x.f
            return E('mem', op=e.op, a=[_clone_e(refsub[b.decl], {}, {})], t=e.t, dt=e.dt, decl=e.decl, arrow=False,
                     file=e.file, line=e.line)
    if e.k == 'var':
        if e.decl in refsub:
            x = _clone_e(refsub[e.decl], {}, {})
            return E('un', op='&', a=[x], t=e.t, dt=e.dt, file=e.file, line=e.line)
        if e.decl in vmap:
            v = vmap[e.decl]
            return E('var', op=v.op, t=v.t, dt=v.dt, decl=v.decl, dk=v.dk or 'VarDecl', file=e.file, line=e.line)
    c = E(e.k, op=e.op, a=[_clone_e(x, vmap, refsub) for x in e.a], t=e.t, dt=e.dt, val=e.val, decl=e.decl, dk=e.dk,
          arrow=e.arrow, file=e.file, line=e.line, uid=('%s@%s' % (e.uid, _CUR_TAG[0])) if e.uid is not None else None,
          post=e.post, body=None, macro=e.macro)
    return c


_CUR_TAG = ['']
_SYN = [0]


def _syn_uid():
    _SYN[0] += 1
    return 'syn%d@%s' % (_SYN[0], _CUR_TAG[0])


def _clone_s(s, vmap, refsub, ret, endlabel, newlocals, tag, tail):
    """clone statement s of the helper; `tail` = s is the last statement of the helper body (no goto needed)"""
    if s is None:
        return None
    if isinstance(s, list):
        out = []
        for i, x in enumerate(s):
            out.append(_clone_s(x, vmap, refsub, ret, endlabel, newlocals, tag, tail and i == len(s) - 1))
        return out
    if s.k == 'return':
        body = []
        if s.e is not None and ret is not None:
            rv = E('var', op=ret.op, t=ret.t, dt=ret.dt, decl=ret.decl, dk='VarDecl', file=s.file, line=s.line,
                   uid=_syn_uid())
            body.append(S('expr', e=E('bin', op='=', a=[rv, _clone_e(s.e, vmap, refsub)], t=ret.t, dt=ret.dt, file=s.file,
                                      line=s.line, uid=_syn_uid()), file=s.file, line=s.line, uid=_syn_uid()))
        elif s.e is not None:
            body.append(S('expr', e=_clone_e(s.e, vmap, refsub), file=s.file, line=s.line))
        if not tail:
            body.append(S('goto', label=endlabel, file=s.file, line=s.line, uid=_syn_uid()))
        return S('compound', body=body, file=s.file, line=s.line, uid=_syn_uid())
    if s.k == 'decl':
        v = s.var
        nv = E('var', op=v.op, t=v.t, dt=v.dt, decl='%s@%s' % (v.decl, tag), dk='VarDecl', file=v.file, line=v.line)
        vmap[v.decl] = nv
        newlocals[nv.decl] = nv
        return S('decl', var=nv, e=_clone_e(s.e, vmap, refsub), static=False, file=s.file, line=s.line, macro=s.macro)
    lab = s.label
    if s.k in ('label', 'goto') and lab is not None:
        lab = '%s@%s' % (lab, tag)              # the helper's own labels are private to this expansion
    # the initialiser of a for statement declares variables that its condition, increment and body use: clone it first
    init_clone = None
    if s.init is not None:
        init_clone = _clone_s(s.init, vmap, refsub, ret, endlabel, newlocals, tag, False) if isinstance(s.init, (S, list)) \
            else _clone_e(s.init, vmap, refsub)
    c = S(s.k, e=_clone_e(s.e, vmap, refsub) if s.e is not None else None, label=lab, file=s.file, line=s.line,
          static=s.static, macro=s.macro, uid=('%s@%s' % (s.uid, tag)) if s.uid is not None else None,
          endline=s.endline, var=s.var)
    # a return nested in a branch is a tail return only if the branch itself is in tail position
    inner_tail = tail and s.k in ('compound', 'if', 'label')
    for attr in ('body', 'then', 'els'):
        x = getattr(s, attr)
        if x is not None:
            setattr(c, attr, _clone_s(x, vmap, refsub, ret, endlabel, newlocals, tag,
                                      inner_tail if not (s.k == 'if' and attr == 'body') else False))
    if s.init is not None:
        c.init = init_clone
    if s.inc is not None:
        c.inc = _clone_e(s.inc, vmap, refsub) if not isinstance(s.inc, (S, list)) else s.inc
    return c


def _first_call(e, cands):
    """the candidate call that is evaluated first and unconditionally in e, or None"""
    from .ir import callee_name
    if e is None:
        return None
    if e.k == 'cast':
        return _first_call(e.a[0], cands) if e.a else None
    if e.k == 'call':
        args = e.a[1:]
        withcall = [a for a in args if any(n.k == 'call' for n in walk(a))]
        if withcall:
            if len(withcall) == 1 and all(_pure(a) for a in args if a is not withcall[0]):
                return _first_call(withcall[0], cands)
            return None
        n = callee_name(e)
        c0 = strip(e.a[0]) if e.a else None
        if n in cands and c0 is not None and c0.k == 'var' and c0.dk == 'FunctionDecl':
            return e
        return None
    if e.k == 'un' and e.op in ('!', '-', '~', '+'):
        return _first_call(e.a[0], cands)
    if e.k == 'bin':
        if e.op.endswith('=') and e.op not in ('==', '!=', '<=', '>='):
            if _is_pure_lvalue(e.a[0]):
                return _first_call(e.a[1], cands)
            return None
        if e.op in ('&&', '||', ','):
            return _first_call(e.a[0], cands)
        l = _first_call(e.a[0], cands)
        if l is not None:
            return l
        if _pure(e.a[0]):
            return _first_call(e.a[1], cands)
        return None
    if e.k == 'cond':
        return _first_call(e.a[0], cands)
    return None


def _replace(e, old, new):
    if e is old:
        return new
    if e is None:
        return None
    e.a = [_replace(x, old, new) for x in e.a]
    return e


def inline_new_helpers(prog, max_rounds=3):
    from .program import rel, all_exprs
    from .ir import callee_name
    known = set((r['unit'], r['name']) for r in reference(prog.config))
    if not known:
        return []
    done = []
    for rnd in range(max_rounds):
        cands_by_unit = {}
        for f in prog.funcs.values():
            if (rel(f.unit), f.name) in known or not _helper_ok(f):
                continue
            # a byte-wise comparison helper is a primitive the verdict rules recognise by its shape: keep it a function
            try:
                from .rules.dlrules import orfold_compare
                if orfold_compare(prog, f):
                    continue
            except Exception:
                pass
            cands_by_unit.setdefault(f.unit, {})[f.name] = f
        if not cands_by_unit:
            break
        changed = False

        def expand(g, lst):
            nonlocal changed
            i = 0
            guard = 0
            while i < len(lst):
                s = lst[i]
                if s is None:
                    i += 1
                    continue
                # nested blocks first
                for attr in ('body', 'then', 'els'):
                    x = getattr(s, attr)
                    if x is None:
                        continue
                    if isinstance(x, list):
                        expand(g, x)
                    elif x.k == 'compound':
                        if x.body is None:
                            x.body = []
                        expand(g, x.body)
                    else:
                        wrap = S('compound', body=[x], file=x.file, line=x.line)
                        expand(g, wrap.body)
                        if len(wrap.body) != 1 or wrap.body[0] is not x:
                            setattr(s, attr, wrap)
                if s.k == 'if' and s.els is None and s.e is not None:
                    # if(a && f(x)) S  ==  if(a) { if(f(x)) S }   when a later operand of the chain holds a new helper's
                    # call: the inner `if` then has the call in first position and can be expanded
                    cands0 = set(cands_by_unit.get(g.unit, {}))
                    ce = s.e
                    while ce is not None and ce.k == 'cast' and ce.a and ce.macro != 'explicit':
                        ce = ce.a[0]
                    if ce is not None and ce.k == 'bin' and ce.op == '&&' and _first_call(ce, cands0) is None:
                        from .ir import callee_name as _cn
                        later = any(n.k == 'call' and _cn(n) in cands0 for n in walk(ce.a[1]))
                        if later:
                            inner = S('if', e=ce.a[1], then=s.then, els=None, file=s.file, line=s.line)
                            s.e = ce.a[0]
                            s.then = S('compound', body=[inner], file=s.file, line=s.line)
                            changed = True
                            continue      # revisit: the nested block is expanded first
                if s.k in ('expr', 'decl', 'return', 'if') and s.e is not None and not (s.k == 'decl' and s.static):
                    cands = cands_by_unit.get(g.unit, {})
                    c = _first_call(s.e, set(k for k in cands if cands[k] is not g))
                    if c is not None and guard < 50:
                        guard += 1
                        f = cands[callee_name(c)]
                        args = c.a[1:]
                        if len(args) == len(f.params):
                            _INL[0] += 1
                            tag = 'i%d' % _INL[0]
                            _CUR_TAG[0] = tag
                            pre = []
                            vmap, refsub, newlocals = {}, {}, {}
                            for p, a in zip(f.params, args):
                                sa = strip(a)
                                while sa is not None and sa.k == 'cast' and sa.a:
                                    sa = strip(sa.a[0])
                                if (p.t or '').rstrip().endswith('*') and sa is not None and sa.k == 'un' and sa.op == '&' \
                                        and _is_pure_lvalue(sa.a[0]) and not _reseated(f, p):
                                    refsub[p.decl] = sa.a[0]
                                elif sa is not None and sa.k == 'var' and sa.dk in ('ParmVarDecl', 'VarDecl') and \
                                        not _reseated(f, p) and not _address_taken(f, p) and \
                                        (sa.t or '').replace('const ', '') == (p.t or '').replace('const ', ''):
                                    # a caller's variable handed over by value to a parameter the helper never changes:
                                    # the parameter *is* that variable for the duration of the call
                                    vmap[p.decl] = sa
                                else:
                                    nv = E('var', op=p.op, t=p.t, dt=p.dt, decl='%s@%s' % (p.decl, tag), dk='VarDecl',
                                           file=c.file, line=c.line)
                                    vmap[p.decl] = nv
                                    newlocals[nv.decl] = nv
                                    pre.append(S('decl', var=nv, e=a, static=False, file=s.file, line=s.line))
                            ret = None
                            if (f.rtype or '').strip() != 'void':
                                ret = E('var', op='%s_ret_%s' % (f.name, tag), t=f.rtype, dt=f.rdtype,
                                        decl='ret@%s' % tag, dk='VarDecl', file=c.file, line=c.line)
                                newlocals[ret.decl] = ret
                                pre.append(S('decl', var=ret, e=None, static=False, file=s.file, line=s.line))
                            endlabel = 'end@%s' % tag
                            fb = f.body if isinstance(f.body, list) else [f.body]
                            body = _clone_s(fb, vmap, refsub, ret, endlabel, newlocals, tag, True)
                            post = [S('label', label=endlabel, body=None, var=endlabel, file=s.file, line=s.line)]
                            # the statement itself, with the call replaced by the result
                            if ret is not None:
                                rv = E('var', op=ret.op, t=ret.t, dt=ret.dt, decl=ret.decl, dk='VarDecl', file=c.file,
                                       line=c.line, uid=_syn_uid())
                                s.e = _replace(s.e, c, rv)
                                tailstmts = [s]
                            else:
                                if strip(s.e) is c or s.e is c:
                                    tailstmts = []
                                else:
                                    s.e = _replace(s.e, c, E('int', val=0, t='int', file=c.file, line=c.line))
                                    tailstmts = [s]
                            new = pre + body + post + tailstmts
                            lst[i:i + 1] = new
                            g.locals.update(newlocals)
                            done.append((f.name, g.name, c.file, c.line))
                            changed = True
                            i += len(new) - len(tailstmts)
                            continue
                i += 1
        for g in list(prog.funcs.values()):
            if g.body is None:
                continue
            if isinstance(g.body, list):
                expand(g, g.body)
            elif g.body.k == 'compound':
                if g.body.body is None:
                    g.body.body = []
                expand(g, g.body.body)
        if not changed:
            break
    # drop helpers that are no longer referenced
    if done:
        refs = set()
        for g in prog.funcs.values():
            if g.body is None:
                continue
            for ex in all_exprs(g):
                for n in walk(ex):
                    if n.k == 'var' and n.dk == 'FunctionDecl':
                        refs.add((g.unit, n.op, g.name))
        for f in list(prog.funcs.values()):
            if (rel(f.unit), f.name) in known or not f.static or f.name not in set(d[0] for d in done):
                continue
            if not any(u == f.unit and nm == f.name and by != f.name for (u, nm, by) in refs):
                del prog.funcs[f.qname]
                prog.by_name[f.name] = [x for x in prog.by_name.get(f.name, []) if x is not f]
        prog._callgraph = None
        prog._callers = None
        prog._fp_targets = None
    return done


def resolve_field_renames(prog):
    """Private struct fields renamed consistently (declaration and every use): a field of the current tree that the
    reference record does not have is matched to a reference field that is missing, when it has the same type and
    sits at the same position in the record (or is the only candidate of that type).  Member accesses are rewritten to
    the reference name by the member's declaration id."""
    global _REF
    reference(prog.config)
    recs = (_REF or {}).get(prog.config + ':records') or (_REF or {}).get('main:records') or {}
    mapping = {}
    byid = {}
    for rname, cur in prog.records.items():
        ref = recs.get(rname)
        if not ref:
            continue
        refnames = [r[0] for r in ref]
        curnames = [c[0] for c in cur]
        missing = [(i, r) for i, r in enumerate(ref) if r[0] not in curnames]
        new = [(i, c) for i, c in enumerate(cur) if c[0] not in refnames]
        if not missing or not new:
            continue
        for i, c in new:
            same_pos = [r for j, r in missing if j == i and r[1].replace('_Bool', 'int') == c[1].replace('_Bool', 'int')]
            cands = same_pos or [r for j, r in missing if r[1] == c[1]]
            if len(cands) == 1:
                mapping['%s.%s' % (rname, c[0])] = cands[0][0]
                byid[c[3]] = cands[0][0]
                missing = [(j, r) for j, r in missing if r is not cands[0]]
    if not byid:
        return {}
    # member ids differ between translation units: go by the new name (and the record in the base's type)
    byname = dict((k.split('.', 1)[1], (k.split('.', 1)[0], v)) for k, v in mapping.items())
    from .program import all_exprs
    for g in prog.funcs.values():
        if g.body is None:
            continue
        for ex in all_exprs(g):
            for n in walk(ex):
                if n.k == 'mem' and n.op in byname:
                    rec, refname = byname[n.op]
                    bt = (n.a[0].t or '') + ' ' + (n.a[0].dt or '') if n.a else ''
                    if rec in bt or not bt.strip():
                        n.op = refname
    for rname, cur in list(prog.records.items()):
        prog.records[rname] = [((byid.get(c[3]) or c[0]),) + tuple(c[1:]) for c in cur]
    return mapping

"""Normalisation of the parsed program before any rule runs, so that behaviour-preserving spellings give the
same facts:

1. pure static helpers are expanded at their call sites.  A static function whose body is a tree of `if`s ending in
   `return <expr>` (local initialised declarations are substituted), with no loop, no call, no assignment and no
   access through its pointer parameters other than reads, is an expression of its parameters;  `x = helper(a)` is
   replaced by that expression with the arguments substituted (arguments must themselves be free of side effects).
   The control-flow builder then turns the conditional expression into branches, and every path rule sees
   `min(n, K)` written as a helper exactly as it sees the inline `if`.
"""
from .ir import E, S, walk, walk_stmts, strip

MAX_NODES = 60


def _pure(e):
    for n in walk(e):
        if n.k in ('call', 'stmtexpr'):
            return False
        if n.k == 'bin' and n.op.endswith('=') and n.op not in ('==', '!=', '<=', '>='):
            return False
        if n.k == 'un' and n.op in ('++', '--'):
            return False
    return True


def _clone(e, sub, line, file):
    """deep copy of e with parameter / local references replaced (sub: decl id -> expression)"""
    if e is None:
        return None
    if e.k == 'var' and e.decl in sub:
        return sub[e.decl]
    c = E(e.k, op=e.op, a=[_clone(x, sub, line, file) for x in e.a], t=e.t, dt=e.dt, val=e.val, decl=e.decl, dk=e.dk,
          arrow=e.arrow, file=file, line=line, uid=e.uid, post=e.post, body=e.body, macro=e.macro)
    return c


def _as_expr(stmts, sub, fn):
    """expression computed by a statement list that returns on every path, or None"""
    stmts = list(stmts)
    while stmts:
        s = stmts.pop(0)
        if s.k == 'null':
            continue
        if s.k == 'compound':
            stmts = list(s.body or []) + stmts
            continue
        if s.k == 'decl':
            if s.static or s.e is None or not _pure(s.e):
                return None
            sub = dict(sub)
            sub[s.var.decl] = ('local', s.e, dict(sub))
            continue
        if s.k == 'return':
            if s.e is None or not _pure(s.e):
                return None
            return ('ret', s.e, sub)
        if s.k == 'if':
            if not _pure(s.e):
                return None
            then = s.then if isinstance(s.then, list) else [s.then]
            els = (s.els if isinstance(s.els, list) else [s.els]) if s.els is not None else []
            a = _as_expr(then + stmts, sub, fn)
            b = _as_expr(els + stmts, sub, fn)
            if a is None or b is None:
                return None
            return ('if', s.e, sub, a, b)
        return None
    return None


def _build(tree, params, line, file, rtype, rdtype):
    def subst_map(sub):
        m = dict(params)
        for d, v in sub.items():
            if isinstance(v, tuple) and v[0] == 'local':
                m[d] = _clone(v[1], subst_map(v[2]), line, file)
        return m
    if tree[0] == 'ret':
        e = _clone(tree[1], subst_map(tree[2]), line, file)
        # the value is converted to the function's return type
        return E('cast', op='IntegralCast', a=[e], t=rtype, dt=rdtype, file=file, line=line, macro='implicit') \
            if (e.t or '') != (rtype or '') and not (rtype or '').rstrip().endswith('*') else e
    c = _clone(tree[1], subst_map(tree[2]), line, file)
    a = _build(tree[3], params, line, file, rtype, rdtype)
    b = _build(tree[4], params, line, file, rtype, rdtype)
    return E('cond', a=[c, a, b], t=rtype, dt=rdtype, file=file, line=line)


def pure_helpers(prog):
    from .program import rel
    known = set((r['unit'], r['name']) for r in reference(prog.config))
    out = {}
    for f in prog.funcs.values():
        if not f.static or f.body is None or not f.params:
            continue
        if (rel(f.unit), f.name) in known:
            continue       # a helper of the reference tree: the rules know it under its name
        if (f.rtype or '').strip() == 'void' or (f.rtype or '').rstrip().endswith('*'):
            continue
        if any((p.t or '').rstrip().endswith('*') for p in f.params):
            continue       # only scalar parameters: nothing can be reached through them
        if sum(1 for s in walk_stmts(f.body)) > 12:
            continue
        body = f.body if isinstance(f.body, list) else [f.body]
        tree = _as_expr(body, {}, f)
        if tree is None:
            continue
        out[f.qname] = (f, tree)
    return out


def inline_pure_helpers(prog):
    helpers = pure_helpers(prog)
    if not helpers:
        return []
    by_unit = {}
    for q, (f, tree) in helpers.items():
        by_unit.setdefault(f.unit, {})[f.name] = (f, tree)
    done = []

    def rewrite(e, unit):
        if e is None:
            return None
        e.a = [rewrite(x, unit) for x in e.a]
        if e.k == 'call' and e.a:
            c = strip(e.a[0])
            if c is not None and c.k == 'var' and c.dk == 'FunctionDecl' and c.op in by_unit.get(unit, {}):
                f, tree = by_unit[unit][c.op]
                args = e.a[1:]
                if len(args) == len(f.params) and all(_pure(a) for a in args):
                    params = dict((p.decl, E('cast', op='IntegralCast', a=[a], t=p.t, dt=p.dt, file=e.file, line=e.line,
                                             macro='implicit') if (a.t or '') != (p.t or '') else a)
                                  for p, a in zip(f.params, args))
                    new = _build(tree, params, e.line, e.file, f.rtype, f.rdtype)
                    if sum(1 for _ in walk(new)) <= MAX_NODES:
                        done.append((f.name, e.file, e.line))
                        return new
        return e

    for g in prog.funcs.values():
        if g.body is None or g.unit not in by_unit:
            continue
        for s in walk_stmts(g.body):
            if s.e is not None:
                s.e = rewrite(s.e, g.unit)
            if s.inc is not None and not isinstance(s.inc, (S, list)):
                s.inc = rewrite(s.inc, g.unit)
    return done


# ------------------------------------------------------------------------------------------------------------
# 2. reference fingerprints and rename resolution
"""
The rules name functions of the reference tree (tables of return conventions, anchors of typestates).  Renaming an
internal function is a behaviour-preserving edit; so that it does not blind a rule, functions of the current tree
that are missing from the reference list are matched to reference functions that are missing from the current tree,
by fingerprint: same unit (static) or any library unit (internal linkage), identical return and parameter types,
and the most similar set of callees and callers (Jaccard, computed after already resolved renames; accepted only
above a threshold and with a margin over the runner-up).  A matched function is given its reference name throughout
the IR (definition and every reference); reports print the reference name and the evidence lists the mapping.
Functions that stay unmatched are new helpers (kept under their own names) or removed functions (a rule that needs
one answers analysis-broken).
"""
import json
import os

REF_PATH = os.path.join(os.path.dirname(os.path.abspath(__file__)), 'reference.json')


def _callees(f):
    from .ir import callee_name, calls_in
    from .program import all_exprs
    out = set()
    for ex in all_exprs(f):
        for c in calls_in(ex):
            n = callee_name(c)
            if n:
                out.add(n)
    return out


def fingerprint(prog):
    from .program import rel
    out = []
    for f in sorted(prog.funcs.values(), key=lambda x: x.qname):
        if f.body is None:
            continue
        out.append({'name': f.name, 'unit': rel(f.unit), 'static': bool(f.static), 'rtype': f.rtype,
                    'ptypes': [p.t for p in f.params], 'callees': sorted(_callees(f)),
                    'public': any('visibility' in str(a) for a in (f.attrs or []))})
    return out


def build_reference(configs=('main', 'bundled-hash')):
    from .program import Program
    data = {}
    for c in configs:
        data[c] = fingerprint(Program(c, normalize=False))
    json.dump(data, open(REF_PATH, 'w'), indent=0, sort_keys=True)
    return dict((c, len(v)) for c, v in data.items())


_REF = None


def reference(config):
    global _REF
    if _REF is None:
        try:
            _REF = json.load(open(REF_PATH))
        except (OSError, ValueError):
            _REF = {}
    return _REF.get(config) or _REF.get('main') or []


def resolve_renames(prog):
    from .program import rel
    ref = reference(prog.config)
    if not ref:
        return {}
    ref_by = {}
    for r in ref:
        ref_by[(r['unit'], r['name'])] = r
    cur = [f for f in prog.funcs.values() if f.body is not None]
    cur_by = dict(((rel(f.unit), f.name), f) for f in cur)
    missing = [r for k, r in ref_by.items() if k not in cur_by]
    new = [f for f in cur if (rel(f.unit), f.name) not in ref_by]
    if not missing or not new:
        return {}
    # callers in the current tree and in the reference
    ref_callers = {}
    for r in ref:
        for c in r['callees']:
            ref_callers.setdefault(c, set()).add(r['name'])
    cur_callees = dict((f.qname, _callees(f)) for f in cur)
    cur_callers = {}
    for f in cur:
        for c in cur_callees[f.qname]:
            cur_callers.setdefault(c, set()).add(f.name)
    mapping = {}       # current name -> reference name (per unit for statics)
    changed = True
    rounds = 0
    while changed and rounds < 4:
        changed = False
        rounds += 1
        ren = dict((cn, rn) for (u, cn), rn in mapping.items())

        def canon(names):
            return set(ren.get(n, n) for n in names)
        for r in list(missing):
            cands = []
            for f in new:
                if (rel(f.unit), f.name) in mapping:
                    continue
                if bool(f.static) != r['static']:
                    continue
                if r['static'] and rel(f.unit) != r['unit']:
                    continue
                if f.rtype != r['rtype'] or [p.t for p in f.params] != r['ptypes']:
                    continue
                a = canon(cur_callees[f.qname]) | set('<-' + x for x in canon(cur_callers.get(f.name, ())))
                b = set(r['callees']) | set('<-' + x for x in ref_callers.get(r['name'], ()))
                j = len(a & b) / float(len(a | b)) if (a | b) else 1.0
                cands.append((j, f))
            if not cands:
                continue
            cands.sort(key=lambda x: -x[0])
            best = cands[0]
            second = cands[1][0] if len(cands) > 1 else 0.0
            if best[0] >= 0.5 and best[0] - second >= 0.15:
                mapping[(rel(best[1].unit), best[1].name)] = r['name']
                missing.remove(r)
                changed = True
    if not mapping:
        return {}
    # apply: definitions and references
    for (u, cn), rn in mapping.items():
        f = cur_by[(u, cn)]
        old_q = f.qname
        f.name = rn
        f.qname = old_q[:-len(cn)] + rn if old_q.endswith(cn) else rn
        del prog.funcs[old_q]
        prog.funcs[f.qname] = f
        prog.by_name[cn] = [x for x in prog.by_name.get(cn, []) if x is not f]
        prog.by_name.setdefault(rn, []).append(f)
    from .program import all_exprs
    for g in prog.funcs.values():
        if g.body is None:
            continue
        gu = rel(g.unit)
        for ex in all_exprs(g):
            for n in walk(ex):
                if n.k == 'var' and n.dk == 'FunctionDecl':
                    k = (gu, n.op)
                    if k in mapping:
                        n.op = mapping[k]
                    else:
                        # reference to a renamed non-static function from another unit
                        for (u, cn), rn in mapping.items():
                            if cn == n.op and not cur_by[(u, cn)].static:
                                n.op = rn
    return dict(('%s::%s' % k, v) for k, v in mapping.items())

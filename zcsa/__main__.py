"""zcsa command line.

python3 -m zcsa setup
python3 -m zcsa check C06 [--tier quick|thorough]
python3 -m zcsa explain /verif/out/C06.violation.json
python3 -m zcsa all [--tier quick]
python3 -m zcsa selftest [Cnn ...]
"""
import importlib
import json
import os
import shutil
import subprocess
import sys
import traceback

from . import frontend, report
from .frontend import AnalysisBroken, CONFIGS
from .program import Program

PROPS = ['C%02d' % i for i in range(1, 21)]


class Context(object):
    def __init__(self, prop, tier, seed):
        self.prop = prop
        self.tier = tier
        self.seed = seed
        self._progs = {}
        self.check = report.Check(prop, tier, seed)

    def prog(self, config='main'):
        if config not in self._progs:
            p = Program(config)
            self._progs[config] = p
        self.check.use_program(self._progs[config])
        return self._progs[config]

    def configs(self):
        """Configurations of this tier."""
        if self.tier == 'thorough':
            return list(CONFIGS.keys())
        return ['main']


def run_check(prop, tier, seed):
    try:
        mod = importlib.import_module('zcsa.props.' + prop.lower())
    except ImportError as ex:
        print('no check module for %s: %s' % (prop, ex))
        return 2
    ctx = Context(prop, tier, seed)
    try:
        mod.run(ctx)
        if tier == 'thorough' and hasattr(mod, 'MUTANTS'):
            from . import selftest
            ctx.check.self_test = selftest.run_for(prop, mod)
        return ctx.check.finish()
    except AnalysisBroken as ex:
        # a rule that ran before the break may already have found a violation: report it (a finding is a finding),
        # and say that the rest of the analysis did not complete
        if ctx.check.findings:
            ctx.check.note('analysis cut short after these findings: ' + str(ex))
            print('ANALYSIS-INCOMPLETE property=%s %s' % (prop, ex))
            rc = ctx.check.finish()
            if rc == 1:
                return 1
        return report.broken(prop, tier, seed, str(ex))
    except Exception as ex:
        traceback.print_exc()
        return report.broken(prop, tier, seed, 'internal error: %r' % (ex,))


def cmd_setup():
    frontend.ensure_include()
    for tool in ('clang',):
        if shutil.which(tool) is None:
            print('missing tool: ' + tool)
            return 1
    v = subprocess.run(['clang', '--version'], stdout=subprocess.PIPE).stdout.decode().splitlines()[0]
    print('zcsa setup: %s; include dir %s' % (v, frontend.INC))
    # warm the parse cache of the main configuration
    try:
        p = Program('main')
        print('parsed %d units, %d functions' % (len(p.units), len(p.funcs)))
    except AnalysisBroken as ex:
        print('warning: ' + str(ex))
    return 0


def cmd_explain(path):
    data = json.load(open(path))
    for f in data.get('findings', []):
        print('%s %s %s:%s %s [%s]' % (f['clause'], f['rule'], f['file'], f['line'], f['function'], f['instance']))
        print('    ' + f['message'])
        for s in f.get('path', []):
            print('      | ' + s)
        if f.get('file') and f.get('line'):
            src = os.path.join(frontend.REPO, f['file'])
            try:
                lines = open(src).read().splitlines()
                lo = max(0, f['line'] - 4)
                for i in range(lo, min(len(lines), f['line'] + 3)):
                    print('    %5d%s %s' % (i + 1, '>' if i + 1 == f['line'] else ' ', lines[i]))
            except OSError:
                pass
    return 0


def main(argv):
    if len(argv) < 2:
        print(__doc__)
        return 2
    cmd = argv[1]
    tier = os.environ.get('VERIF_TIER', 'quick')
    try:
        seed = int(os.environ.get('VERIF_SEED', '0'))
    except ValueError:
        seed = 0
    args = argv[2:]
    if '--tier' in args:
        i = args.index('--tier')
        tier = args[i + 1]
        del args[i:i + 2]
    if tier not in ('quick', 'thorough'):
        tier = 'quick'
    if cmd == 'setup':
        return cmd_setup()
    if cmd == 'check':
        return run_check(args[0], tier, seed)
    if cmd == 'explain':
        return cmd_explain(args[0])
    if cmd == 'all':
        worst = 0
        for p in (args or PROPS):
            if os.path.exists(os.path.join(os.path.dirname(__file__), 'props', p.lower() + '.py')):
                rc = run_check(p, tier, seed)
                worst = max(worst, rc)
        return worst
    if cmd == 'reference':
        from . import normalize
        print(normalize.build_reference())
        return 0
    if cmd == 'manifest':
        from . import manifest
        return manifest.main()
    if cmd == 'selftest':
        from . import selftest
        return selftest.main(args)
    print(__doc__)
    return 2


if __name__ == '__main__':
    # reproducible iteration order of sets of strings: the analysis results do not depend on it, the order in
    # which states are explored (and thus which witness path is printed) would
    if os.environ.get('PYTHONHASHSEED') != '0':
        env = dict(os.environ)
        env['PYTHONHASHSEED'] = '0'
        os.execve(sys.executable, [sys.executable, '-m', 'zcsa'] + sys.argv[1:], env)
    sys.exit(main(sys.argv))

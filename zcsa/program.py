"""Whole-program layer: function table, call graph with field-sensitive
function-pointer resolution, access paths, alias substitution."""
import os

from . import frontend
from .frontend import AnalysisBroken, REPO
from .cfg import build_cfg
from .ir import (E, S, strip, strip_transparent, walk, walk_eval_order, walk_stmts,
                 stmt_exprs, calls_in, callee_name, callee_field, show, const_value)


def rel(path):
    if path is None:
        return '?'
    if path.startswith(REPO + '/'):
        return path[len(REPO) + 1:]
    return path


class Program(object):
    def __init__(self, config='main', use_cache=True, normalize=True):
        data = frontend.load_units(config, use_cache=use_cache)
        self.config = config
        self.units = data['units']
        self.unlisted = data['unlisted']
        self.key = data['key']
        self.funcs = {}        # qname -> Func
        self.by_name = {}      # plain name -> [Func]
        self.globals = []
        self.records = {}
        self.bitfields = {}
        self.enums = {}
        self.protos = {}
        counts = {}
        for u in self.units:
            for f in u.funcs:
                if not f.static:
                    counts[f.name] = counts.get(f.name, 0) + 1
        for u in self.units:
            for f in u.funcs:
                if not f.static and counts.get(f.name, 0) > 1:
                    # several non-static definitions of the same name in
                    # different executables (each tool has its own main)
                    f.qname = rel(u.path) + '::' + f.name
                self.funcs[f.qname] = f
                self.by_name.setdefault(f.name, []).append(f)
            self.globals.extend(u.globals)
            for k, v in u.records.items():
                self.records.setdefault(k, v)
            for k, v in getattr(u, 'bitfields', {}).items():
                self.bitfields.setdefault(k, v)
            self.enums.update(u.enums)
            for k, v in u.protos.items():
                self.protos.setdefault(k, v)
        self._fp_targets = None
        self._callgraph = None
        self._callers = None
        self.renamed = {}
        self.inlined_helpers = []
        self.inlined_procs = []
        if normalize:
            from . import normalize as nz
            self.renamed = nz.resolve_renames(self)
            self.renamed.update(nz.resolve_field_renames(self))
            self.inlined_helpers = nz.inline_pure_helpers(self)
            self.inlined_procs = nz.inline_new_helpers(self)

    # ---------------------------------------------------------- macros
    def macro(self, name, header='src/lib/zck_private.h'):
        """Integer value of an object-like macro as seen by the configuration
        (clang -E -dM on the private header), or None."""
        if not hasattr(self, '_macros'):
            self._macros = {}
        if header not in self._macros:
            import subprocess
            import re
            cmd = ['clang'] + frontend.flags(self.config) + ['-E', '-dM', frontend.repo_path(*header.split('/'))]
            p = subprocess.run(cmd, stdout=subprocess.PIPE, stderr=subprocess.PIPE)
            d = {}
            for line in p.stdout.decode(errors='replace').splitlines():
                m = re.match(r'#define\s+([A-Za-z_][A-Za-z0-9_]*)\s+(.+)$', line)
                if m:
                    d[m.group(1)] = m.group(2).strip()
            self._macros[header] = d
        d = self._macros[header]
        v = d.get(name)
        seen = 0
        while v is not None and seen < 8:
            try:
                return int(v.rstrip('uUlL'), 0)
            except ValueError:
                pass
            try:
                import ast
                import re as _re
                expr = v
                for tname, tsz in (('size_t', 8), ('ssize_t', 8), ('int', 4), ('long', 8), ('char', 1),
                                   ('uint64_t', 8), ('uint32_t', 4)):
                    expr = _re.sub(r'sizeof\s*\(\s*%s\s*\)' % tname, str(tsz), expr)
                expr = _re.sub(r'([A-Za-z_][A-Za-z0-9_]*)', lambda m: str(d.get(m.group(1), m.group(1))), expr)
                expr = expr.replace('/', '//')
                expr = _re.sub(r'(\d)[uUlL]+', r'\1', expr)
                node = ast.parse(expr, mode='eval')
                for n in ast.walk(node):
                    if not isinstance(n, (ast.Expression, ast.BinOp, ast.UnaryOp, ast.Constant, ast.Add, ast.Sub,
                                          ast.Mult, ast.FloorDiv, ast.Div, ast.USub, ast.LShift, ast.RShift)):
                        return None
                return int(eval(compile(node, '<macro>', 'eval')))
            except Exception:
                v = d.get(v)
                seen += 1
        return None

    # ---------------------------------------------------------- lookup
    def is_lib_unit(self, path):
        return 'src/lib/' in path

    def lib_funcs(self):
        return [f for f in self.funcs.values() if self.is_lib_unit(f.unit)]

    def func(self, name, unit_suffix=None):
        """Function by plain name; unit_suffix disambiguates statics
        (e.g. 'comp/zstd/zstd.c')."""
        c = self.by_name.get(name, [])
        if unit_suffix is not None:
            c = [f for f in c if f.unit.endswith(unit_suffix)]
        if len(c) == 1:
            return c[0]
        if not c:
            return None
        # prefer library non-static
        lib = [f for f in c if self.is_lib_unit(f.unit) and not f.static]
        if len(lib) == 1:
            return lib[0]
        return None

    def need_func(self, name, unit_suffix=None):
        f = self.func(name, unit_suffix)
        if f is None:
            raise AnalysisBroken('anchor function %s%s not found (renamed, removed or ambiguous)'
                                 % (name, ' in ' + unit_suffix if unit_suffix else ''))
        return f

    def cfg(self, fn):
        return build_cfg(fn)

    # ---------------------------------------------------------- call resolution
    def resolve_direct(self, caller, name):
        """Resolve a direct call by name from `caller`'s unit: a static function
        of the same unit wins, then a non-static function of the library (or of
        the same unit)."""
        c = self.by_name.get(name, [])
        same = [f for f in c if f.unit == caller.unit]
        if same:
            return same[0]
        ext = [f for f in c if not f.static]
        if len(ext) == 1:
            return ext[0]
        libext = [f for f in ext if self.is_lib_unit(f.unit)]
        if len(libext) == 1:
            return libext[0]
        return None

    def fp_targets(self):
        """member name -> set of qnames assigned to a struct member of function
        pointer type anywhere in the program (X->field = fn / X.field = fn)."""
        if self._fp_targets is None:
            t = {}
            for f in self.funcs.values():
                for ex in stmt_exprs(f.body):
                    for n in walk(ex):
                        if n.k == 'bin' and n.op == '=':
                            lhs = strip(n.a[0])
                            rhs = strip(n.a[1])
                            if rhs.k == 'un' and rhs.op == '&':
                                rhs = strip(rhs.a[0])
                            if lhs.k == 'mem' and rhs.k == 'var' and rhs.dk == 'FunctionDecl':
                                tgt = self.resolve_direct(f, rhs.op)
                                if tgt is not None:
                                    t.setdefault(lhs.op, set()).add(tgt.qname)
                                else:
                                    t.setdefault(lhs.op, set()).add('extern:' + rhs.op)
            self._fp_targets = t
        return self._fp_targets

    def call_targets(self, caller, call):
        """Resolved targets of a call node: list of Func (repo) and list of
        external names.  Unknown indirect calls give ([], ['<indirect:field>'])."""
        name = callee_name(call)
        if name is not None:
            tgt = self.resolve_direct(caller, name)
            if tgt is not None:
                return [tgt], []
            return [], [name]
        field = callee_field(call)
        if field is not None:
            qs = self.fp_targets().get(field)
            if qs:
                fs = [self.funcs[q] for q in qs if q in self.funcs]
                ex = [q[7:] for q in qs if q.startswith('extern:')]
                return fs, ex
            return [], ['<indirect:%s>' % field]
        c = strip(call.a[0])
        if c.k == 'var':
            return [], ['<indirect:%s>' % c.op]
        return [], ['<indirect>']

    def callgraph(self):
        """qname -> list of (call node, [Func targets], [extern names])"""
        if self._callgraph is None:
            cg = {}
            for q, f in self.funcs.items():
                sites = []
                for ex in all_exprs(f):
                    for c in calls_in(ex):
                        fs, exs = self.call_targets(f, c)
                        sites.append((c, fs, exs))
                cg[q] = sites
            self._callgraph = cg
        return self._callgraph

    def callers(self):
        if self._callers is None:
            r = {}
            for q, sites in self.callgraph().items():
                for c, fs, exs in sites:
                    for t in fs:
                        r.setdefault(t.qname, []).append((self.funcs[q], c))
                    for x in exs:
                        r.setdefault('extern:' + x, []).append((self.funcs[q], c))
            self._callers = r
        return self._callers

    def reachable_calls(self, roots, stop=None):
        """Transitive closure over the call graph from `roots` (Func list).
        Returns (set of qnames, dict extern name -> list of (Func, call) sites,
        parent map for path reconstruction)."""
        cg = self.callgraph()
        seen = {}
        ext = {}
        work = []
        for r in roots:
            seen[r.qname] = None
            work.append(r)
        while work:
            f = work.pop()
            if stop and f.qname in stop:
                continue
            for c, fs, exs in cg[f.qname]:
                for t in fs:
                    if t.qname not in seen:
                        seen[t.qname] = (f.qname, c)
                        work.append(t)
                for x in exs:
                    ext.setdefault(x, []).append((f, c))
        return seen, ext

    def call_path(self, seen, qname):
        path = []
        cur = qname
        while cur is not None and seen.get(cur) is not None:
            par, c = seen[cur]
            path.append('%s (%s:%d)' % (cur, rel(c.file), c.line))
            cur = par
        path.append(cur)
        path.reverse()
        return ' -> '.join(str(p) for p in path)


def all_exprs(fn):
    """Every top-level expression of a function body (conditions, statements,
    initialisers, returns), including those inside statement expressions."""
    out = []
    for s in walk_stmts(fn.body):
        if s.e is not None:
            out.append(s.e)
        if s.inc is not None and not isinstance(s.inc, (S, list)):
            out.append(s.inc)
    return out


# ------------------------------------------------------------------ access paths

def access_path(e, subst=None):
    """Canonical string of an lvalue-ish expression: decl-rooted access path
    with field names.  Locals are named by 'name#declid-suffix' only when needed;
    here we use names plus decl id to stay unambiguous.  Returns None for
    expressions that are not access paths."""
    e = strip(e)
    if e is None:
        return None
    if e.k == 'var':
        if subst is not None and e.decl in subst:
            return access_path(subst[e.decl], subst)
        return e.op
    if e.k == 'mem':
        b = e.a[0]
        sb = strip(b)
        # (&x)->f  ==  x.f
        if e.arrow and sb.k == 'un' and sb.op == '&':
            base = access_path(sb.a[0], subst)
            return None if base is None else base + '.' + e.op
        base = access_path(b, subst)
        if base is None:
            return None
        if not e.arrow and base.startswith('*'):
            return base[1:] + '->' + e.op
        return base + ('->' if e.arrow else '.') + e.op
    if e.k == 'un' and e.op == '*':
        sb = strip(e.a[0])
        if sb.k == 'un' and sb.op == '&':
            return access_path(sb.a[0], subst)
        base = access_path(e.a[0], subst)
        return None if base is None else '*' + base
    if e.k == 'un' and e.op == '&':
        sb = strip(e.a[0])
        if sb.k == 'un' and sb.op == '*':
            return access_path(sb.a[0], subst)
        base = access_path(e.a[0], subst)
        return None if base is None else '&' + base
    if e.k == 'idx':
        base = access_path(e.a[0], subst)
        i = const_value(e.a[1])
        if base is None:
            return None
        if i == 0:
            return '*' + base
        return base + '[' + (str(i) if i is not None else show(e.a[1])) + ']'
    return None


def field_of(e):
    """Last member name of an access (zck->comp.data_loc -> 'data_loc')."""
    e = strip(e)
    if e is not None and e.k == 'mem':
        return e.op
    return None


def unique_defs(fn):
    """Locals with exactly one definition (their initialiser), never
    re-assigned, never address-taken, whose initialiser is a pure access path
    or pointer arithmetic over parameters/fields: decl id -> initialiser.
    Used to see through `zckComp *comp = &zck->comp;` style aliases."""
    assigned = {}
    addr = set()
    inits = {}
    for s in walk_stmts(fn.body):
        if s.k == 'decl' and s.var is not None and not s.static:
            if s.e is not None:
                inits[s.var.decl] = s.e
                assigned[s.var.decl] = assigned.get(s.var.decl, 0) + 1
    for ex in all_exprs(fn):
        for n in walk(ex):
            if n.k == 'bin' and (n.op == '=' or n.op.endswith('=') and n.op not in ('==', '!=', '<=', '>=')):
                l = strip(n.a[0])
                if l.k == 'var':
                    assigned[l.decl] = assigned.get(l.decl, 0) + 1
            elif n.k == 'un' and n.op in ('++', '--'):
                l = strip(n.a[0])
                if l.k == 'var':
                    assigned[l.decl] = assigned.get(l.decl, 0) + 1
            elif n.k == 'un' and n.op == '&':
                l = strip(n.a[0])
                if l.k == 'var':
                    addr.add(l.decl)
    res = {}
    for d, init in inits.items():
        if assigned.get(d, 0) == 1 and d not in addr:
            if is_pure(init):
                res[d] = init
    return res


def is_pure(e):
    for n in walk(e):
        if n.k in ('call', 'stmtexpr', 'opaque'):
            return False
        if n.k == 'bin' and (n.op == '=' or (n.op.endswith('=') and n.op not in ('==', '!=', '<=', '>='))):
            return False
        if n.k == 'un' and n.op in ('++', '--'):
            return False
    return True


def is_assign_op(op):
    return op == '=' or (op.endswith('=') and op not in ('==', '!=', '<=', '>='))


def assignments_in(e):
    """(lhs, rhs, op, node) for every assignment / inc / dec inside e, eval order."""
    out = []
    for n in walk_eval_order(e):
        if n.k == 'bin' and is_assign_op(n.op):
            out.append((n.a[0], n.a[1], n.op, n))
        elif n.k == 'un' and n.op in ('++', '--'):
            out.append((n.a[0], None, n.op, n))
    return out

#include <stdio.h>
#include <fcntl.h>
#include <zck.h>
int main(int c, char**v){ int fd=open(v[1],O_RDONLY); zckCtx*z=zck_create(); int ok=zck_init_read(z,fd); printf("init_read=%d\n",ok); zck_free(&z); puts("freed"); return 0; }

#!/bin/sh
# zck -s crashes when the input ends inside a split string that began in the previous 32 KiB block (negative length
# converted to size_t).  usage: c01_split_tail_negative.sh <build dir>   (exit 1 = reproduced)
B=${1:-/repo/_build}
T=$(mktemp -d) || exit 2
trap 'rm -rf "$T"' EXIT
python3 -c "import sys; sys.stdout.buffer.write(b'x'*32766 + b'ABCD')" > $T/sp.bin
$B/src/zck -s ABCDEF -o $T/sp.zck $T/sp.bin; rc=$?
echo "zck exit code $rc"
[ $rc -eq 0 ] && $B/src/unzck -c $T/sp.zck | cmp - $T/sp.bin && exit 0
exit 1

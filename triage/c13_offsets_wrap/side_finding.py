#!/usr/bin/env python3
"""Side finding reproducer (UNCHANGED code): see NOTES.md, "Side finding".

usage: side_finding.py <worktree>
Builds seed/demo.c against <worktree>/_build, writes three detached headers into
a temp directory under /tmp/zcsa-triage-c13/ and prints what libzck reports.
"""
import os
import shutil
import subprocess
import sys
import tempfile

sys.path.insert(0, os.path.dirname(os.path.abspath(__file__)))
from check import ci, digest  # noqa: E402


def build(entries, short_index=0):
    body = b"".join(cks + ci(cl) + ci(ul) for cks, cl, ul in entries)
    index = ci(3) + ci(len(entries)) + body
    preface = digest(1, b"") + ci(0) + ci(0) + ci(len(index) - short_index)
    header = preface + index + ci(0)
    lead0 = ci(1) + ci(len(header))
    return b"\0ZHR1" + lead0 + digest(1, b"\0ZCK1" + lead0 + header) + header


def main():
    wt = os.path.abspath(sys.argv[1])
    here = os.path.dirname(os.path.abspath(__file__))
    lib = os.path.join(wt, "_build/src/lib")
    base = "/tmp/zcsa-triage-c13"
    os.makedirs(base, exist_ok=True)
    tmp = tempfile.mkdtemp(dir=base)
    try:
        demo = os.path.join(tmp, "demo")
        subprocess.check_call(["cc", "-I" + os.path.join(wt, "_build/include"),
                               "-o", demo, os.path.join(here, "demo.c"),
                               "-L" + lib, "-lzck", "-Wl,-rpath," + lib])
        Z, A, B = bytes(16), b"\x11" * 16, b"\x22" * 16
        cases = {
            # stored sizes 0, 2^63, 2^63, 10: the running sum passes 2^64
            "sum-wraps": build([(Z, 0, 0), (A, 1 << 63, 5), (B, 1 << 63, 7),
                                (A, 10, 10)]),
            # one stored size above SSIZE_MAX
            "size-above-ssize-max": build([(Z, 0, 0), (A, (1 << 63) + 5, 5)]),
            # index size one byte short: the last entry straddles the end of
            # the index and its last byte doubles as the signature count
            "entry-overruns-index": build([(Z, 0, 0), (A, 7, 9), (B, 3, 0)],
                                          short_index=1),
        }
        for name, data in cases.items():
            path = os.path.join(tmp, name + ".zck")
            with open(path, "wb") as f:
                f.write(data)
            print("== " + name)
            sys.stdout.flush()
            subprocess.call([demo, path])
    finally:
        shutil.rmtree(tmp, ignore_errors=True)
        try:
            os.rmdir(base)
        except OSError:
            pass


if __name__ == "__main__":
    main()

#!/usr/bin/env python3
"""C13 demonstration: reported metadata must equal the file's.

Builds a handful of zchunk files / detached headers byte by byte, reads them
back with a small parser written from zchunk_format.txt, and compares that with
what libzck (seed/demo.c, public API) and the zck_read_header tool report.

usage: check.py <workdir> <demo binary> <zck_read_header binary>
exit:  0 property holds, 1 property violated, 2 harness problem
"""
import hashlib
import os
import subprocess
import sys

U64 = (1 << 64) - 1
INT_MAX = (1 << 31) - 1
DIGEST = {0: 20, 1: 32, 2: 64, 3: 16}
HASHNAME = {0: "SHA-1", 1: "SHA-256", 2: "SHA-512", 3: "SHA-512/128"}


# ----------------------------------------------------------------- writer --
def ci(val):
    out = bytearray()
    while True:
        out.append(val & 0x7f)
        val >>= 7
        if val == 0:
            out[-1] |= 0x80
            return bytes(out)


def digest(kind, data):
    if kind == 0:
        return hashlib.sha1(data).digest()
    if kind == 1:
        return hashlib.sha256(data).digest()
    if kind == 2:
        return hashlib.sha512(data).digest()
    return hashlib.sha512(data).digest()[:16]


def build(chunks, count_field, detached=False, full_type=1, chunk_type=3):
    """chunks: list of byte strings stored uncompressed (first = dictionary).
    count_field: the number written into the index's chunk count field."""
    entries = b""
    for c in chunks:
        cks = digest(chunk_type, c) if c else bytes(DIGEST[chunk_type])
        entries += cks + ci(len(c)) + ci(len(c))
    index = ci(chunk_type) + ci(count_field) + entries
    body = b"".join(chunks)
    preface = digest(full_type, body) + ci(0) + ci(0) + ci(len(index))
    header = preface + index + ci(0)
    lead0 = ci(full_type) + ci(len(header))
    hdr_cks = digest(full_type, b"\0ZCK1" + lead0 + header)
    magic = b"\0ZHR1" if detached else b"\0ZCK1"
    out = magic + lead0 + hdr_cks + header
    if not detached:
        out += body
    return out


# ----------------------------------------------------------------- parser --
class Reject(Exception):
    pass


def rd_ci(buf, pos, end):
    val = 0
    for i in range(10):
        if pos + i >= end:
            raise Reject("integer runs past the end")
        b = buf[pos + i]
        val |= (b & 0x7f) << (7 * i)
        if b & 0x80:
            if val > U64:
                raise Reject("integer does not fit 64 bits")
            return val, pos + i + 1
    raise Reject("over-long integer")


def rd_small(buf, pos, end, what):
    val, pos = rd_ci(buf, pos, end)
    if val > INT_MAX:
        raise Reject("%s does not fit an int" % what)
    return val, pos


def parse(buf):
    if buf[:5] == b"\0ZHR1":
        detached = 1
    elif buf[:5] == b"\0ZCK1":
        detached = 0
    else:
        raise Reject("bad magic")
    pos = 5
    full_type, pos = rd_small(buf, pos, len(buf), "checksum type")
    if full_type not in DIGEST:
        raise Reject("unknown checksum type")
    hlen, pos = rd_ci(buf, pos, len(buf))
    dloc = pos
    dsize = DIGEST[full_type]
    hdr_digest = buf[pos:pos + dsize]
    pos += dsize
    lead = pos
    end = lead + hlen
    if len(hdr_digest) != dsize or end > len(buf):
        raise Reject("short file")
    if digest(full_type, b"\0ZCK1" + buf[5:dloc] + buf[lead:end]) != hdr_digest:
        raise Reject("header checksum mismatch")
    if pos + dsize > end:
        raise Reject("short header")
    data_digest = buf[pos:pos + dsize]
    pos += dsize
    flags, pos = rd_ci(buf, pos, end)
    if flags & ~6:
        raise Reject("unsupported flags")
    comp, pos = rd_small(buf, pos, end, "compression type")
    if comp not in (0, 2):
        raise Reject("unknown compression type")
    if flags & 2:
        n, pos = rd_ci(buf, pos, end)
        for _ in range(n):
            _, pos = rd_ci(buf, pos, end)
            sz, pos = rd_ci(buf, pos, end)
            if sz > end - pos:
                raise Reject("optional element past end")
            pos += sz
    isize, pos = rd_small(buf, pos, end, "index size")
    iend = pos + isize
    if iend > end:
        raise Reject("index past end of header")
    ctype, pos = rd_small(buf, pos, iend, "chunk checksum type")
    if ctype not in DIGEST:
        raise Reject("unknown chunk checksum type")
    count, pos = rd_ci(buf, pos, iend)
    csize = DIGEST[ctype]
    chunks = []
    start = end
    while pos < iend:
        if pos + csize > iend:
            raise Reject("index entry past end of index")
        cks = buf[pos:pos + csize]
        pos += csize
        ucks = None
        if flags & 4:
            if pos + csize > iend:
                raise Reject("index entry past end of index")
            ucks = buf[pos:pos + csize]
            pos += csize
        clen, pos = rd_ci(buf, pos, iend)
        ulen, pos = rd_ci(buf, pos, iend)
        chunks.append((len(chunks), cks.hex(), ucks.hex() if ucks else "-",
                       start, clen, ulen))
        start += clen
        if start > U64:
            raise Reject("offsets overflow")
    if not chunks:
        raise Reject("no dictionary entry")
    if count != len(chunks):
        raise Reject("index claims %d chunks but holds %d" % (count, len(chunks)))
    sigs, pos = rd_small(buf, pos, end, "signature count")
    if sigs:
        raise Reject("signatures unsupported")
    return {
        "detached": detached, "full_hash_type": full_type,
        "chunk_hash_type": ctype, "lead_length": lead, "header_length": end,
        "data_length": start - end, "length": start, "flags": flags,
        "header_digest": hdr_digest.hex(), "data_digest": data_digest.hex(),
        "chunk_count": count, "chunks": chunks,
    }


# ------------------------------------------------------------ what libzck says
def run(cmd):
    p = subprocess.run(cmd, stdout=subprocess.PIPE, stderr=subprocess.PIPE,
                       timeout=60)
    return p.returncode, p.stdout.decode("latin-1"), p.stderr.decode("latin-1")


def api_report(demo, path):
    rc, out, err = run([demo, path])
    if rc != 0:
        raise RuntimeError("demo exited %d: %s" % (rc, err))
    rep = {"chunks": []}
    for line in out.splitlines():
        k, _, v = line.partition("=")
        if k == "chunk":
            f = v.split()
            rep["chunks"].append((int(f[0]), f[1], f[2], int(f[3]), int(f[4]),
                                  int(f[5])))
        elif k in ("header_digest", "data_digest", "error"):
            rep[k] = v
        else:
            rep[k] = int(v)
    return rep


def tool_report(tool, path):
    rc, out, err = run([tool, "-c", path])
    if rc != 0:
        return None
    rep = {"rows": 0}
    for line in out.splitlines():
        if line.startswith("Chunk count:"):
            rep["chunk_count"] = int(line.split(":")[1])
        elif line.startswith("Header size:"):
            rep["header_length"] = int(line.split(":")[1])
        elif line.startswith("Data size:"):
            rep["data_length"] = int(line.split(":")[1])
        elif line.startswith("Header checksum:"):
            rep["header_digest"] = line.split(":")[1].strip()
        elif line.startswith("Data checksum:"):
            rep["data_digest"] = line.split(":")[1].strip()
        elif line.startswith("Overall checksum type:"):
            rep["full_hash_name"] = line.split(":")[1].strip()
        elif line.startswith("Chunk checksum type:"):
            rep["chunk_hash_name"] = line.split(":")[1].strip()
        else:
            f = line.split()
            if len(f) >= 5 and f[0].isdigit() and f[-1].isdigit():
                rep["rows"] += 1
    return rep


def compare(name, want, api, tool):
    """Return a list of human readable mismatches."""
    bad = []
    for k in ("detached", "full_hash_type", "chunk_hash_type", "lead_length",
              "header_length", "data_length", "length", "flags",
              "header_digest", "data_digest", "chunk_count"):
        if api.get(k) != want[k]:
            bad.append("%s: API %s = %r, file says %r" % (name, k, api.get(k),
                                                          want[k]))
    if api.get("iter_count") != len(want["chunks"]):
        bad.append("%s: API iterates %r chunks, file holds %d"
                   % (name, api.get("iter_count"), len(want["chunks"])))
    if api.get("chunk_count") != api.get("iter_count"):
        bad.append("%s: API chunk count %r != chunks reachable by iteration %r"
                   % (name, api.get("chunk_count"), api.get("iter_count")))
    if api["chunks"] != want["chunks"]:
        bad.append("%s: API chunk table differs from the file's" % name)
    if tool is None:
        bad.append("%s: zck_read_header refuses a file the API opened" % name)
        return bad
    for k in ("header_length", "data_length", "header_digest", "data_digest",
              "chunk_count"):
        if tool.get(k) != want[k]:
            bad.append("%s: zck_read_header %s = %r, file says %r"
                       % (name, k, tool.get(k), want[k]))
    if tool.get("full_hash_name") != HASHNAME[want["full_hash_type"]]:
        bad.append("%s: zck_read_header overall checksum type %r"
                   % (name, tool.get("full_hash_name")))
    if tool.get("chunk_hash_name") != HASHNAME[want["chunk_hash_type"]]:
        bad.append("%s: zck_read_header chunk checksum type %r"
                   % (name, tool.get("chunk_hash_name")))
    if tool["rows"] != len(want["chunks"]):
        bad.append("%s: zck_read_header lists %d chunks, file holds %d"
                   % (name, tool["rows"], len(want["chunks"])))
    return bad


def main():
    workdir, demo, tool_bin = sys.argv[1:4]
    chunks = [b"", b"first chunk of the C13 demonstration\n" * 3,
              b"second chunk\n" * 5]
    n = len(chunks)
    cases = [
        # name, bytes, is a control (must be accepted by everybody)
        ("control", build(chunks, n), True),
        ("control-detached", build(chunks, n, detached=True), True),
        ("count+1", build(chunks, n + 1), False),
        ("count+2^32", build(chunks, n + (1 << 32)), False),
        ("count+2^32-detached", build(chunks, n + (1 << 32), detached=True),
         False),
        ("count+2^40", build(chunks, n + (1 << 40)), False),
        ("count+2^63", build(chunks, n + (1 << 63)), False),
    ]
    violations = []
    for name, data, control in cases:
        path = os.path.join(workdir, name + ".zck")
        with open(path, "wb") as f:
            f.write(data)
        try:
            want = parse(data)
            why = None
        except Reject as e:
            want = None
            why = str(e)
        api = api_report(demo, path)
        tool = tool_report(tool_bin, path)
        if control:
            if want is None or not api.get("open") or tool is None:
                print("HARNESS: control case %s not accepted (%s / %s)"
                      % (name, why, api.get("error")))
                return 2
        if want is None:
            # The bytes do not describe a valid file: it must be rejected.
            if api.get("open"):
                violations.append(
                    "%s: file is invalid (%s) but the API opened it and reports"
                    " chunk_count=%r while %r chunks are reachable by iteration"
                    % (name, why, api.get("chunk_count"), api.get("iter_count")))
            if tool is not None:
                violations.append(
                    "%s: file is invalid (%s) but zck_read_header prints"
                    " 'Chunk count: %r' above a table of %d chunks"
                    % (name, why, tool.get("chunk_count"), tool["rows"]))
            if not api.get("open") and tool is None:
                print("ok   %-22s rejected (%s)" % (name, why))
            continue
        if not api.get("open"):
            print("note %-22s valid but refused by the library: %s"
                  % (name, api.get("error")))
            continue
        bad = compare(name, want, api, tool)
        if bad:
            violations.extend(bad)
        else:
            print("ok   %-22s reported metadata equals the file's" % name)
    if violations:
        print("C13 VIOLATED:")
        for v in violations:
            print("  " + v)
        return 1
    print("C13 holds for all cases")
    return 0


if __name__ == "__main__":
    try:
        sys.exit(main())
    except Exception as e:  # harness trouble, not a verdict
        print("HARNESS: %r" % (e,))
        sys.exit(2)

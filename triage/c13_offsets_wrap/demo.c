/* Dump everything libzck reports about a zchunk file (or detached header)
 * through the public API, one "key=value" per line, so that check.py can
 * compare it with what its own parser reads from the same bytes. */
#include <stdio.h>
#include <stdlib.h>
#include <fcntl.h>
#include <unistd.h>
#include <zck.h>

int main(int argc, char **argv) {
    if(argc != 2) {
        fprintf(stderr, "usage: demo <file>\n");
        return 2;
    }
    int fd = open(argv[1], O_RDONLY);
    if(fd < 0) {
        perror("open");
        return 2;
    }
    zck_set_log_level(ZCK_LOG_NONE);
    zckCtx *zck = zck_create();
    if(zck == NULL)
        return 2;
    if(!zck_init_read(zck, fd)) {
        printf("open=0\n");
        printf("error=%s", zck_get_error(zck));
        zck_free(&zck);
        close(fd);
        return 0;
    }
    printf("open=1\n");
    printf("detached=%i\n", (int)zck_is_detached_header(zck));
    printf("full_hash_type=%i\n", zck_get_full_hash_type(zck));
    printf("chunk_hash_type=%i\n", zck_get_chunk_hash_type(zck));
    printf("lead_length=%lli\n", (long long)zck_get_lead_length(zck));
    printf("header_length=%lli\n", (long long)zck_get_header_length(zck));
    printf("data_length=%lli\n", (long long)zck_get_data_length(zck));
    printf("length=%lli\n", (long long)zck_get_length(zck));
    printf("flags=%lli\n", (long long)zck_get_flags(zck));
    char *d = zck_get_header_digest(zck);
    printf("header_digest=%s\n", d ? d : "");
    free(d);
    d = zck_get_data_digest(zck);
    printf("data_digest=%s\n", d ? d : "");
    free(d);
    printf("chunk_count=%lli\n", (long long)zck_get_chunk_count(zck));

    long long iter = 0;
    for(zckChunk *c = zck_get_first_chunk(zck); c; c = zck_get_next_chunk(c)) {
        char *cd = zck_get_chunk_digest(c);
        char *ud = zck_get_chunk_digest_uncompressed(c);
        printf("chunk=%lli %s %s %lli %lli %lli\n",
               (long long)zck_get_chunk_number(c),
               cd ? cd : "-", ud ? ud : "-",
               (long long)zck_get_chunk_start(c),
               (long long)zck_get_chunk_comp_size(c),
               (long long)zck_get_chunk_size(c));
        free(cd);
        free(ud);
        iter++;
    }
    printf("iter_count=%lli\n", iter);
    zck_free(&zck);
    close(fd);
    return 0;
}

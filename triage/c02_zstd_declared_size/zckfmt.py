"""Minimal zchunk container parser/verifier/serialiser written from
zchunk_format.txt.

parse() checks the header checksum, every chunk checksum and (unless the
uncompressed-source flag forbids it) the whole-data checksum.  It does not
decompress: the expected content is the input the file was made from."""
import hashlib

HASHES = {0: ('sha1', 20), 1: ('sha256', 32), 2: ('sha512', 64), 3: ('sha512', 16)}


class Bad(Exception):
    pass


def digest(htype, data):
    name, size = HASHES[htype]
    return hashlib.new(name, data).digest()[:size]


def read_ci(buf, pos, end):
    val = 0
    shift = 0
    while True:
        if pos >= end:
            raise Bad('compressed int runs past the end')
        c = buf[pos]
        pos += 1
        val |= (c & 0x7f) << shift
        shift += 7
        if c & 0x80:
            return val, pos
        if shift > 63:
            raise Bad('compressed int too large')


class Chunk:
    pass


class ZFile:
    pass


def parse(buf):
    """Parse and fully verify; raises Bad when anything does not match."""
    z = ZFile()
    if buf[:5] != b'\0ZCK1':
        raise Bad('bad magic')
    pos = 5
    z.htype, pos = read_ci(buf, pos, len(buf))
    if z.htype not in HASHES:
        raise Bad('hash type')
    z.hlen, pos = read_ci(buf, pos, len(buf))
    dsize = HASHES[z.htype][1]
    dig_loc = pos
    hdig = buf[pos:pos + dsize]
    z.header_digest = hdig
    pos += dsize
    z.lead_size = pos
    z.data_off = pos + z.hlen
    if z.data_off > len(buf):
        raise Bad('header truncated')
    if digest(z.htype, buf[:dig_loc] + buf[z.lead_size:z.data_off]) != hdig:
        raise Bad('header checksum')
    end = z.data_off
    z.data_digest = buf[pos:pos + dsize]
    pos += dsize
    z.flags, pos = read_ci(buf, pos, end)
    if z.flags & ~4:
        raise Bad('unsupported flags')
    z.comp, pos = read_ci(buf, pos, end)
    isize, pos = read_ci(buf, pos, end)
    iend = pos + isize
    if iend > end:
        raise Bad('index past header')
    z.chtype, pos = read_ci(buf, pos, iend)
    count, pos = read_ci(buf, pos, iend)
    csize = HASHES[z.chtype][1]
    z.chunks = []
    off = 0
    while pos < iend:
        c = Chunk()
        c.digest = buf[pos:pos + csize]
        pos += csize
        if z.flags & 4:
            c.udigest = buf[pos:pos + csize]
            pos += csize
        c.comp_length, pos = read_ci(buf, pos, iend)
        c.length, pos = read_ci(buf, pos, iend)
        c.start = off
        off += c.comp_length
        z.chunks.append(c)
    if len(z.chunks) != count:
        raise Bad('chunk count')
    z.data_length = off
    if z.data_off + off != len(buf):
        raise Bad('data section length')
    for n, c in enumerate(z.chunks):
        body = buf[z.data_off + c.start:z.data_off + c.start + c.comp_length]
        if c.comp_length == 0:
            if c.digest != bytes(csize):
                raise Bad('empty chunk %d with a digest' % n)
        elif digest(z.chtype, body) != c.digest:
            raise Bad('chunk %d checksum' % n)
    if not z.flags & 4:
        if digest(z.htype, buf[z.data_off:]) != z.data_digest:
            raise Bad('data checksum')
    return z


def write_ci(val):
    out = bytearray()
    while True:
        c = val & 0x7f
        val >>= 7
        if val == 0:
            out.append(c | 0x80)
            return bytes(out)
        out.append(c)


def bodies(buf, z):
    return [buf[z.data_off + c.start:z.data_off + c.start + c.comp_length]
            for c in z.chunks]


def build(z, chunks, chunk_bodies, header_digest=None):
    """Serialise a file from index entries `chunks` (objects with digest,
    comp_length, length) and their bodies.  The data checksum is computed from
    the bodies.  The header checksum is computed too unless `header_digest`
    supplies the bytes to store instead."""
    if z.flags:
        raise ValueError('only plain files are rebuilt')
    index = write_ci(z.chtype) + write_ci(len(chunks))
    for c in chunks:
        index += c.digest + write_ci(c.comp_length) + write_ci(c.length)
    data = b''.join(chunk_bodies)
    preface = digest(z.htype, data) + write_ci(z.flags) + write_ci(z.comp) + write_ci(len(index))
    rest = preface + index + write_ci(0)
    lead = b'\0ZCK1' + write_ci(z.htype) + write_ci(len(rest))
    if header_digest is None:
        header_digest = digest(z.htype, lead + rest)
    return lead + header_digest + rest + data

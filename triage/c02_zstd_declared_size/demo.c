/* Reads a zchunk file to the end of the stream through the public API.
 *
 *   demo <file.zck> <bufsize> <out> <pre>
 *
 * <pre> selects what a careful consumer does between opening and reading:
 *   0 nothing, 1 zck_validate_checksums(), 2 zck_validate_data_checksum()
 * (unzck itself does the latter before it extracts anything)
 *
 * exit 0: open, every read and close reported success; content written to <out>
 * exit 1: the library reported an error at some point
 * exit 2: harness problem
 */
#include <stdio.h>
#include <stdlib.h>
#include <fcntl.h>
#include <unistd.h>
#include <zck.h>

int main(int argc, char **argv) {
    if(argc != 5)
        return 2;
    int fd = open(argv[1], O_RDONLY);
    if(fd < 0)
        return 2;
    size_t bs = strtoul(argv[2], NULL, 10);
    if(bs == 0)
        return 2;
    FILE *out = fopen(argv[3], "wb");
    char *buf = malloc(bs);
    if(out == NULL || buf == NULL)
        return 2;

    zck_set_log_level(ZCK_LOG_NONE);
    zckCtx *zck = zck_create();
    if(zck == NULL)
        return 2;
    if(!zck_init_read(zck, fd))
        return 1;
    int pre = atoi(argv[4]);
    if(pre == 1 && zck_validate_checksums(zck) < 1)
        return 1;
    if(pre == 2 && zck_validate_data_checksum(zck) < 1)
        return 1;
    while(1) {
        ssize_t rb = zck_read(zck, buf, bs);
        if(rb < 0)
            return 1;
        if(rb == 0)
            break;
        if(fwrite(buf, 1, rb, out) != (size_t)rb)
            return 2;
    }
    if(!zck_close(zck))
        return 1;
    if(fclose(out) != 0)
        return 2;
    zck_free(&zck);
    free(buf);
    close(fd);
    return 0;
}

#!/usr/bin/env python3
"""Reproducers for two defects of the unchanged reader (see NOTES.md, Side findings)."""
import copy
import os
import subprocess
import sys

sys.path.insert(0, os.path.dirname(os.path.abspath(__file__)))
import zckfmt  # noqa: E402

wt, tmp, reader = sys.argv[1:4]
env = dict(os.environ, TMPDIR=tmp, LD_LIBRARY_PATH=os.path.join(wt, '_build', 'src', 'lib'))
tf = os.path.join(wt, 'test', 'files')
orig = open(os.path.join(tf, 'LICENSE.fodt'), 'rb').read()
found = 0


def lib(path, bs):
    out = os.path.join(tmp, 'out.bin')
    r = subprocess.run([reader, path, str(bs), out, '0'], env=env,
                       stdout=subprocess.PIPE, stderr=subprocess.PIPE)
    return open(out, 'rb').read() if r.returncode == 0 else None


def tool(path):
    r = subprocess.run([os.path.join(wt, '_build', 'src', 'unzck'), '-c', path], env=env,
                       stdout=subprocess.PIPE, stderr=subprocess.PIPE)
    return r.stdout if r.returncode == 0 else None


def report(title, results):
    global found
    print(title)
    for how, got in results:
        if got is None:
            print('   %-8s error reported' % how)
        elif got == orig:
            print('   %-8s success, original content' % how)
        else:
            found += 1
            print('   %-8s SUCCESS WITH DIFFERENT CONTENT (%d bytes, original %d)'
                  % (how, len(got), len(orig)))


# 1. zstd chunk whose index entry declares more uncompressed bytes than its frame
#    holds; every checksum of the file matches
data = open(os.path.join(tf, 'LICENSE.nodict.fodt.zck'), 'rb').read()
z = zckfmt.parse(data)
ent = [copy.copy(c) for c in z.chunks]
ent[3].length += 100
path = os.path.join(tmp, 'longer.zck')
open(path, 'wb').write(zckfmt.build(z, ent, zckfmt.bodies(data, z)))
zckfmt.parse(open(path, 'rb').read())
report('1. declared uncompressed length of zstd chunk 3 raised by 100, all checksums valid',
       [('library', lib(path, 4096)), ('unzck', tool(path))])

# 2. file with the uncompressed-source flag (no whole-data checksum), cut inside its
#    first chunk
src = os.path.join(tmp, 'u.zck')
r = subprocess.run([os.path.join(wt, '_build', 'src', 'zck'), '-u', '-o', src,
                    os.path.join(tf, 'LICENSE.fodt')], env=env,
                   stdout=subprocess.PIPE, stderr=subprocess.PIPE)
if r.returncode != 0:
    print('zck -u failed')
    sys.exit(2)
data = open(src, 'rb').read()
z = zckfmt.parse(data)
first = next(c for c in z.chunks if c.comp_length > 0)
cut = z.data_off + first.start + first.comp_length // 2
path = os.path.join(tmp, 'cut.zck')
open(path, 'wb').write(data[:cut])
report('2. zck -u file truncated to %d of %d bytes (inside the first chunk)' % (cut, len(data)),
       [('library', lib(path, 4096)), ('unzck', tool(path))])
sys.exit(1 if found else 0)

#!/bin/sh
# side_findings.sh <worktree> : reproduces, on the UNCHANGED code as well, two ways in
# which the reader returns different content with success.  Prints what it sees;
# exit 0 = neither reproduced, 1 = at least one reproduced, 2 = harness problem.
WT="$1"
[ -n "$WT" ] && [ -d "$WT/_build" ] || { echo "usage: side_findings.sh <worktree>"; exit 2; }
HERE=$(cd "$(dirname "$0")" && pwd)
BASE=/tmp/zcsa-triage-c02
mkdir -p "$BASE" || exit 2
TMP=$(mktemp -d "$BASE/side.XXXXXX") || exit 2
trap 'rm -rf "$TMP"' EXIT INT TERM
INC="$WT/_build/include"
[ -f "$INC/zck.h" ] || INC="$WT/include"
cc -O1 -Wall -o "$TMP/demo" "$HERE/demo.c" -I"$INC" \
   -L"$WT/_build/src/lib" -lzck -Wl,-rpath,"$WT/_build/src/lib" || exit 2
python3 "$HERE/side_findings.py" "$WT" "$TMP" "$TMP/demo"

#!/usr/bin/env python3
"""C02 demonstration: an altered zchunk file must never be read with success
and different content, whichever way a consumer goes about reading it.

usage: demo.py <worktree> <tmpdir> <reader-binary>
exit 0: property holds for every case, 1: violated, 2: harness problem
"""
import copy
import os
import subprocess
import sys

sys.path.insert(0, os.path.dirname(os.path.abspath(__file__)))
import zckfmt  # noqa: E402

# (label, buffer size, what is called between open and the first read)
LIB_MODES = (
    ('lib, buf 1000', 1000, 0),
    ('lib, buf 32768', 32768, 0),
    ('lib, buf 1048576', 1 << 20, 0),
    ('lib, zck_validate_checksums first, buf 4096', 4096, 1),
    ('lib, zck_validate_data_checksum first, buf 32768', 32768, 2),
)


def harness(msg):
    print('HARNESS PROBLEM: ' + msg)
    sys.exit(2)


def main():
    wt, tmp, reader = sys.argv[1:4]
    unzck = os.path.join(wt, '_build', 'src', 'unzck')
    env = dict(os.environ, TMPDIR=tmp,
               LD_LIBRARY_PATH=os.path.join(wt, '_build', 'src', 'lib'))
    tf = os.path.join(wt, 'test', 'files')
    orig = open(os.path.join(tf, 'LICENSE.fodt'), 'rb').read()

    files = {}
    for name in ('LICENSE.nodict.fodt.zck', 'LICENSE.dict.fodt.zck',
                 'LICENSE.nocomp.fodt.zck'):
        data = open(os.path.join(tf, name), 'rb').read()
        try:
            z = zckfmt.parse(data)
        except zckfmt.Bad as e:
            harness('independent check rejects %s: %s' % (name, e))
        if sum(c.length for c in z.chunks[1:]) != len(orig):
            harness('%s does not declare the length of LICENSE.fodt' % name)
        if zckfmt.build(z, z.chunks, zckfmt.bodies(data, z)) != data:
            harness('serialiser does not reproduce %s' % name)
        files[name] = (data, z)

    def read_lib(path, bs, pre):
        out = os.path.join(tmp, 'out.bin')
        r = subprocess.run([reader, path, str(bs), out, str(pre)], env=env,
                           stdout=subprocess.PIPE, stderr=subprocess.PIPE)
        if r.returncode not in (0, 1):
            harness('reader exit %d' % r.returncode)
        if r.returncode == 1:
            return None
        return open(out, 'rb').read()

    def read_tool(path):
        r = subprocess.run([unzck, '-c', path], env=env,
                           stdout=subprocess.PIPE, stderr=subprocess.PIPE)
        if r.returncode != 0:
            return None
        return r.stdout

    violations = []
    counts = [0, 0]

    def check(name, what, data):
        path = os.path.join(tmp, 'case.zck')
        with open(path, 'wb') as f:
            f.write(data)
        try:
            zckfmt.parse(data)
            intact = True
        except zckfmt.Bad as e:
            intact = False
            why = str(e)
        results = [(label, read_lib(path, bs, pre)) for label, bs, pre in LIB_MODES]
        results.append(('unzck', read_tool(path)))
        counts[0] += 1
        for how, got in results:
            counts[1] += 1
            if got is None:
                if intact:
                    harness('%s %s: intact file refused by %s' % (name, what, how))
                continue
            if got != orig:
                verdict = 'intact' if intact else 'damaged (%s)' % why
                violations.append('%s, %s\n      %s: success, but the %d bytes returned are '
                                  'not the content; independent check: %s'
                                  % (name, what, how, len(got), verdict))

    for name, (data, z) in files.items():
        check(name, 'unaltered', data)
        ch = zckfmt.bodies(data, z)
        real = [n for n, c in enumerate(z.chunks) if n > 0 and c.comp_length > 0]
        picks = [real[0], real[len(real) // 2], real[-1]]

        # Alterations of the bytes only
        cuts = set((z.data_off - 1, z.lead_size, 30))
        for n in picks:
            c = z.chunks[n]
            s = z.data_off + c.start
            cuts.update((s, s + 1, s + c.comp_length // 2, s + c.comp_length - 1))
        for cut in sorted(cuts):
            if 0 < cut < len(data):
                check(name, 'truncated to %d of %d bytes' % (cut, len(data)), data[:cut])
        flips = [7, z.lead_size + 3, z.data_off - 5]
        for n in picks:
            c = z.chunks[n]
            s = z.data_off + c.start
            flips += [s, s + c.comp_length // 2, s + c.comp_length - 1]
        for pos in flips:
            alt = bytearray(data)
            alt[pos] ^= 0x10
            check(name, 'bit flipped at offset %d' % pos, bytes(alt))
        a, b = picks[0], picks[1]
        alt = list(ch)
        alt[a], alt[b] = alt[b], alt[a]
        check(name, 'bodies of chunks %d and %d swapped' % (a, b),
              data[:z.data_off] + b''.join(alt))
        s = z.data_off + z.chunks[b].start + 10
        check(name, 'byte inserted at offset %d' % s, data[:s] + b'\x00' + data[s:])

        # Alterations that also rewrite the header to agree with the new data
        # section (index entries, data checksum) but cannot produce the header
        # checksum stored in the lead, which is left as it was
        def forged(what, entries, new_bodies):
            check(name, what + ', index and data checksum rewritten to match, '
                  'header checksum left unchanged',
                  zckfmt.build(z, entries, new_bodies, header_digest=z.header_digest))

        ent = list(z.chunks)
        alt = list(ch)
        ent[a], ent[b] = ent[b], ent[a]
        alt[a], alt[b] = alt[b], alt[a]
        forged('chunks %d and %d exchanged' % (a, b), ent, alt)

        ent = list(z.chunks)
        alt = list(ch)
        del ent[b]
        del alt[b]
        forged('chunk %d removed' % b, ent, alt)

        ent = list(z.chunks)
        alt = list(ch)
        ent.insert(b, ent[a])
        alt.insert(b, alt[a])
        forged('chunk %d repeated' % a, ent, alt)

        forged('last chunk removed', list(z.chunks)[:-1], list(ch)[:-1])

        if z.comp == 0:
            ent = [copy.copy(c) for c in z.chunks]
            alt = list(ch)
            body = bytearray(alt[b])
            body[100:110] = b'0123456789'
            alt[b] = bytes(body)
            ent[b].digest = zckfmt.digest(z.chtype, alt[b])
            forged('ten bytes of chunk %d substituted' % b, ent, alt)

    print('%d files, %d reads checked' % tuple(counts))
    if violations:
        print('C02 VIOLATED in %d reads:' % len(violations))
        for v in violations:
            print('  ' + v)
        sys.exit(1)
    print('C02 holds: every altered file was refused, every intact one read back exactly')
    sys.exit(0)


if __name__ == '__main__':
    main()

#include <stdio.h>
#include <stdlib.h>
#include <fcntl.h>
#include <unistd.h>
#include <string.h>
#include <zck.h>
size_t zck_header_cb(char *b, size_t l, size_t c, void *dl_v);
int main(){
  { int fd=open("d.zck",O_CREAT|O_TRUNC|O_RDWR,0644); zckCtx*z=zck_create(); if(!zck_init_write(z,fd)) return 1;
    if(!zck_set_ioption(z,ZCK_MANUAL_CHUNK,1)) return 2;
    char d[1000]; memset(d,'a',sizeof d);
    for(int k=0;k<3;k++){ if(zck_write(z,d,1000)<0) return 3; if(zck_end_chunk(z)<0) return 4; }
    if(!zck_close(z)) return 5; 
    ssize_t hl=zck_get_header_length(z); ssize_t len=zck_get_length(z); ssize_t dl=zck_get_data_length(z);
    printf("hdr=%zd total=%zd data=%zd\n",hl,len,dl);
    zckChunk*c1=zck_get_chunk(z,1); ssize_t cs=zck_get_chunk_comp_size(c1);
    if(ftruncate(fd, hl+cs)<0) return 6; printf("truncated to header + first chunk (%zd)\n", hl+cs); close(fd); }
  { int fd=open("d.zck",O_RDONLY); zckCtx*z=zck_create(); if(!zck_init_read(z,fd)) return 7;
    int v=zck_validate_checksums(z); printf("C09-c validate_checksums on truncated file = %d (1 means all valid)\n", v);
    for(zckChunk*c=zck_get_first_chunk(z);c;c=zck_get_next_chunk(c)) printf(" chunk %zd valid=%d\n", zck_get_chunk_number(c), zck_get_chunk_valid(c)); }
  { // C17-a: boundary with regex metachar
    int fd=open("/repo/test/files/LICENSE.nodict.fodt.zck",O_RDWR); zckCtx*z=zck_create(); if(!zck_init_read(z,fd)) return 8;
    zckDL*dl=zck_dl_init(z); zckRange*r=zck_get_missing_range(z,-1); if(!zck_dl_set_range(dl,r)) return 9;
    char h[]="Content-Type: multipart/byteranges; boundary=a(b\r\n";
    printf("hdr cb=%zu\n", zck_header_cb(h,1,strlen(h),dl));
    char body[]="\r\n--a(b\r\nContent-Range: bytes 0-1/10\r\n\r\nxx";
    printf("write cb 1=%zu\n", zck_write_chunk_cb(body,1,strlen(body),dl)); fflush(stdout);
    char body2[]="\r\n--a(b\r\nContent-Range: bytes 0-1/10\r\n\r\nxx";
    printf("write cb 2=%zu\n", zck_write_chunk_cb(body2,1,strlen(body2),dl)); }
  return 0; }

#include <stdio.h>
#include <fcntl.h>
#include <unistd.h>
#include <string.h>
#include <zck.h>
int main(int argc,char**argv){
  int fd=open(argv[1],O_RDONLY); zckCtx*z=zck_create();
  if(!zck_init_read(z,fd)){printf("open fail %s\n",zck_get_error(z));return 1;}
  int bs=atoi(argv[2]); char*buf=malloc(bs); long tot=0; int n=0;
  while(1){ ssize_t r=zck_read(z,buf,bs); if(r<0){printf("read error after %ld bytes in %d reads\n",tot,n);break;} if(r==0){printf("eof after %ld\n",tot);break;} tot+=r;n++; if(n>100000){printf("runaway\n");break;} }
  printf("close=%d\n",zck_close(z));
  return 0;}

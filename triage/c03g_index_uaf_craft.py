import hashlib,sys
def ci(v):
    out=bytearray()
    while True:
        b=v%128; v//=128
        if v==0: out.append(b+128); return bytes(out)
        out.append(b)
# flags=4 (uncompressed source), index: hash type 1 (sha256), count 1, then ONLY the first digest (32 bytes) and 8 more bytes: second digest runs past the header
index = ci(1)+ci(1)+bytes(32)+bytes(8)
preface = hashlib.sha256(b'').digest()+ci(4)+ci(0)+ci(len(index))
hdr = preface+index+ci(0)
lead0 = b'\0ZCK1'+ci(1)+ci(len(hdr))
open('uaf.zck','wb').write(lead0+hashlib.sha256(lead0+hdr).digest()+hdr)

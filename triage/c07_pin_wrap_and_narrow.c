#include <fcntl.h>
#include <stdio.h>
#include <stdlib.h>
#include <string.h>
#include <unistd.h>
#include <zck.h>
int main(int argc, char **argv) {
    /* 1: hash type pin truncated to int */
    int fd = open(argv[1], O_RDONLY);
    zckCtx *zck = zck_create();
    if(!zck_init_adv_read(zck, fd)) return 2;
    int ok = zck_set_ioption(zck, ZCK_VAL_HEADER_HASH_TYPE, (ssize_t)4294967297LL);
    printf("pin type 2^32+1: %s\n", ok ? "accepted" : "refused");
    printf("read_lead of SHA-256 (type 1) file: %s\n", zck_read_lead(zck) ? "ACCEPTED" : "refused");
    zck_free(&zck); close(fd);
    /* 2: header length wrap: crafted lead, header_length = 2^64 - 29, pinned total 10 */
    unsigned char lead[64]; size_t n = 0;
    memcpy(lead, "\0ZCK1", 5); n = 5;
    lead[n++] = 0x81; /* sha256 */
    unsigned long long v = 0ULL - 29ULL; /* lead size = 5+1+10+32 = 48 -> want v + 48 == 10+... */
    /* lead length = 5 + 1 + 10 (compint of a 64-bit value) + 32 = 48, so v = 2^64 - 48 + 10 */
    v = 0ULL - 48ULL + 10ULL;
    for(;;) { unsigned char c = v % 128; v /= 128; if(v == 0) { lead[n++] = c + 128; break; } lead[n++] = c; }
    memset(lead + n, 0xab, 32); n += 32;
    printf("crafted lead is %zu bytes\n", n);
    int wfd = open(argv[2], O_WRONLY|O_CREAT|O_TRUNC, 0600);
    if(write(wfd, lead, n) != (ssize_t)n) return 2;
    close(wfd);
    fd = open(argv[2], O_RDONLY);
    zck = zck_create();
    if(!zck_init_adv_read(zck, fd)) return 2;
    ok = zck_set_ioption(zck, ZCK_VAL_HEADER_LENGTH, 10);
    printf("pin total header length 10: %s\n", ok ? "accepted" : "refused");
    ok = zck_read_lead(zck);
    printf("read_lead of file whose stored header length is 2^64-38: %s (%s)\n", ok ? "ACCEPTED" : "refused", ok ? "" : zck_get_error(zck));
    if(ok) printf("zck_get_header_length = %lld\n", (long long)zck_get_header_length(zck));
    zck_free(&zck); close(fd);
    return 0;
}

import sys,hashlib
def ci(b,o):
    v=0;s=0
    while True:
        c=b[o];o+=1
        if c>=128: v|=(c-128)<<s; return v,o
        v|=c<<s;s+=7
def parse(b):
    o=5; ht,o=ci(b,o); hl,o=ci(b,o); dloc=o
    ds={0:20,1:32}[ht]; lead=o+ds
    return ht,hl,dloc,ds,lead
def reseal(b):
    b=bytearray(b); ht,hl,dloc,ds,lead=parse(b)
    h=hashlib.sha1() if ht==0 else hashlib.sha256()
    h.update(b"\0ZCK1"); h.update(b[5:dloc]); h.update(b[lead:lead+hl])
    b[dloc:dloc+ds]=h.digest(); return bytes(b)
if __name__=='__main__':
    b=bytearray(open(sys.argv[1],'rb').read())
    ht,hl,dloc,ds,lead=parse(b)
    # locate index: preface = data digest + flags + comptype + indexsize
    o=lead+ds; fl,o=ci(b,o); ct,o=ci(b,o); isz,o=ci(b,o)
    cht,o2=ci(b,o); cnt,o2=ci(b,o2)
    cds={0:20,1:32,2:64,3:16}[cht]
    print('hdr',lead+hl,'flags',fl,'comp',ct,'idxsize',isz,'chunkhash',cht,'count',cnt, file=sys.stderr)
    which=int(sys.argv[3])
    p=o2
    for k in range(cnt):
        if k==which: b[p]^=1
        p+=cds; l,p=ci(b,p); ul,p=ci(b,p)
    open(sys.argv[2],'wb').write(reseal(b))

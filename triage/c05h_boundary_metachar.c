/*
 * Range reassembly demonstration.
 *
 * Builds a small zchunk file with manual chunking, then repeatedly creates a
 * target that holds the header plus a few already-valid chunks, asks the
 * library which ranges are missing, and feeds a well-formed HTTP range
 * response (plain single-range body or multipart/byteranges) through
 * zck_header_cb() / zck_write_chunk_cb() using different fragmentations.
 *
 * Checked, for every fragmentation:
 *   good response    : every callback succeeds, requested chunks are at their
 *                      offsets and valid, nothing else changed
 *   corrupt response : (one chunk's bytes damaged in transit) some callback
 *                      invocation reports an error, that chunk is zero-filled
 *                      and marked failed, nothing outside the requested
 *                      chunks changed
 *
 * exit 0 = property holds in all scenarios, 1 = violated, 2 = harness problem
 */
#define _GNU_SOURCE
#include <stdio.h>
#include <stdlib.h>
#include <stdint.h>
#include <stdbool.h>
#include <string.h>
#include <unistd.h>
#include <fcntl.h>
#include <sys/stat.h>
#include <zck.h>

#define NCHUNKS 9               /* data chunks written (dict chunk comes first) */
#define FILL 0xAA

static const char *workdir;
static int violations = 0;

#define HARNESS_FAIL(...) do { fprintf(stderr, "HARNESS: " __VA_ARGS__); \
                               fprintf(stderr, "\n"); exit(2); } while(0)

static uint32_t rng_state = 12345;
static uint32_t rnd(void) {
    rng_state = rng_state * 1103515245u + 12345u;
    return (rng_state >> 8) & 0xffffff;
}

/* ------------------------------------------------------------------ */
/* Source file                                                         */

static unsigned char *full;      /* whole source .zck */
static size_t full_len;

static void build_source(const char *path) {
    int fd = open(path, O_RDWR | O_CREAT | O_TRUNC, 0644);
    if(fd < 0)
        HARNESS_FAIL("open %s", path);
    zckCtx *zck = zck_create();
    if(!zck || !zck_init_write(zck, fd))
        HARNESS_FAIL("init_write");
    if(!zck_set_ioption(zck, ZCK_MANUAL_CHUNK, 1) ||
       !zck_set_ioption(zck, ZCK_COMP_TYPE, ZCK_COMP_NONE))
        HARNESS_FAIL("set option: %s", zck_get_error(zck));
    /* small chunks: several of them fit into a single transport buffer */
    static const int sizes[NCHUNKS] = {900, 1300, 700, 1100, 1500, 800, 1000,
                                       600, 1200};
    for(int c = 0; c < NCHUNKS; c++) {
        char *buf = malloc(sizes[c]);
        for(int i = 0; i < sizes[c]; i++)
            buf[i] = (char)(1 + rnd() % 250);    /* never 0x00 */
        if(zck_write(zck, buf, sizes[c]) != sizes[c] || zck_end_chunk(zck) < 0)
            HARNESS_FAIL("write chunk: %s", zck_get_error(zck));
        free(buf);
    }
    if(!zck_close(zck))
        HARNESS_FAIL("close: %s", zck_get_error(zck));
    zck_free(&zck);
    close(fd);

    fd = open(path, O_RDONLY);
    struct stat st;
    if(fd < 0 || fstat(fd, &st) < 0)
        HARNESS_FAIL("stat source");
    full_len = st.st_size;
    full = malloc(full_len);
    if(read(fd, full, full_len) != (ssize_t)full_len)
        HARNESS_FAIL("read source");
    close(fd);
}

/* ------------------------------------------------------------------ */
/* Response construction                                               */

typedef struct { size_t start, end; } rng_t;

static int parse_ranges(const char *s, rng_t *out, int max) {
    int n = 0;
    while(*s && n < max) {
        unsigned long long a, b;
        int used = 0;
        if(sscanf(s, "%llu-%llu%n", &a, &b, &used) != 2)
            HARNESS_FAIL("bad range string");
        out[n].start = a;
        out[n].end = b;
        n++;
        s += used;
        if(*s == ',')
            s++;
    }
    return n;
}

/* body built from `data` (an image of the file as the server sees it) */
static unsigned char *build_body(const unsigned char *data, rng_t *r, int n,
                                 const char *boundary, size_t *len) {
    size_t cap = full_len + 512 * (n + 1), l = 0;
    unsigned char *b = malloc(cap);
    if(n == 1) {
        l = r[0].end - r[0].start + 1;
        memcpy(b, data + r[0].start, l);
    } else {
        for(int i = 0; i < n; i++) {
            l += sprintf((char*)b + l,
                         "\r\n--%s\r\nContent-Type: application/octet-stream\r\n"
                         "X-Part: %d\r\n"
                         "Content-Range: bytes %llu-%llu/%llu\r\n\r\n",
                         boundary, i, (unsigned long long)r[i].start,
                         (unsigned long long)r[i].end,
                         (unsigned long long)full_len);
            size_t pl = r[i].end - r[i].start + 1;
            memcpy(b + l, data + r[i].start, pl);
            l += pl;
        }
        l += sprintf((char*)b + l, "\r\n--%s--\r\n", boundary);
    }
    *len = l;
    return b;
}

/* ------------------------------------------------------------------ */
/* One scenario                                                        */

typedef enum { FR_WHOLE, FR_ONE, FR_SEVEN, FR_RANDOM, FR_4K } frag_t;
static const char *frag_name[] = {"whole body in one call", "1 byte per call",
                                  "7 bytes per call", "random split",
                                  "4096 bytes per call"};

static size_t next_frag(frag_t f, size_t left) {
    size_t n;
    switch(f) {
        case FR_WHOLE:  n = left; break;
        case FR_ONE:    n = 1; break;
        case FR_SEVEN:  n = 7; break;
        case FR_4K:     n = 4096; break;
        default:        n = 1 + rnd() % 2500; break;
    }
    return n > left ? left : n;
}

static void header_line(zckDL *dl, const char *line) {
    char *copy = strdup(line);
    size_t l = strlen(copy);
    if(zck_header_cb(copy, 1, l, dl) != l)
        HARNESS_FAIL("header callback refused '%s'", line);
    free(copy);
}

/*
 * have:    which chunks (by number) are already present in the target
 * corrupt: chunk number whose bytes get damaged in transit, or -1
 */
static void scenario(const char *name, const bool *have, int corrupt,
                     frag_t frag) {
    char path[4096];
    snprintf(path, sizeof(path), "%s/target.zck", workdir);

    /* Parse the source once more to learn the layout */
    char spath[4096];
    snprintf(spath, sizeof(spath), "%s/source.zck", workdir);
    int sfd = open(spath, O_RDONLY);
    zckCtx *src = zck_create();
    if(sfd < 0 || !src || !zck_init_read(src, sfd))
        HARNESS_FAIL("open source");
    size_t hlen = zck_get_header_length(src);
    int count = zck_get_chunk_count(src);
    size_t cstart[64], clen[64];
    int n = 0;
    for(zckChunk *c = zck_get_first_chunk(src); c; c = zck_get_next_chunk(c)) {
        cstart[n] = zck_get_chunk_start(c);
        clen[n] = zck_get_chunk_comp_size(c);
        n++;
    }
    if(n != count || n > 64)
        HARNESS_FAIL("chunk count");
    zck_free(&src);
    close(sfd);

    /* Target: header, present chunks, filler everywhere else */
    unsigned char *before = malloc(full_len);
    memset(before, FILL, full_len);
    memcpy(before, full, hlen);
    for(int i = 0; i < n; i++)
        if(have[i])
            memcpy(before + cstart[i], full + cstart[i], clen[i]);
    int fd = open(path, O_RDWR | O_CREAT | O_TRUNC, 0644);
    if(fd < 0 || write(fd, before, full_len) != (ssize_t)full_len)
        HARNESS_FAIL("write target");
    lseek(fd, 0, SEEK_SET);

    zckCtx *tgt = zck_create();
    if(!tgt || !zck_init_adv_read(tgt, fd) || !zck_read_lead(tgt) ||
       !zck_read_header(tgt))
        HARNESS_FAIL("open target: %s", zck_get_error(tgt));
    if(zck_find_valid_chunks(tgt) == 0)
        HARNESS_FAIL("find_valid_chunks: %s", zck_get_error(tgt));
    zck_reset_failed_chunks(tgt);

    bool wanted[64];
    int i = 0;
    for(zckChunk *c = zck_get_first_chunk(tgt); c; c = zck_get_next_chunk(c)) {
        int v = zck_get_chunk_valid(c);
        wanted[i] = (v == 0);
        if((v == 1) != (have[i] || clen[i] == 0))
            HARNESS_FAIL("chunk %d initial validity %d unexpected", i, v);
        i++;
    }

    zckDL *dl = zck_dl_init(tgt);
    zckRange *range = zck_get_missing_range(tgt, -1);
    if(!dl || !range || !zck_dl_set_range(dl, range))
        HARNESS_FAIL("range setup");
    char *rs = zck_get_range_char(tgt, range);
    rng_t r[64];
    int nr = parse_ranges(rs, r, 64);

    /* What the server sends; optionally damaged in transit */
    unsigned char *wire = malloc(full_len);
    memcpy(wire, full, full_len);
    if(corrupt >= 0) {
        if(!wanted[corrupt])
            HARNESS_FAIL("corrupt chunk is not requested");
        wire[cstart[corrupt] + clen[corrupt] / 2] ^= 0x5a;
    }
    const char *boundary = getenv("BOUNDARY") ? getenv("BOUNDARY") : "3d6b6a416f9b5";
    size_t blen = 0;
    unsigned char *body = build_body(wire, r, nr, boundary, &blen);

    /* Response headers */
    char line[512];
    header_line(dl, "HTTP/1.1 206 Partial Content\r\n");
    header_line(dl, "Accept-Ranges: bytes\r\n");
    if(nr == 1) {
        snprintf(line, sizeof(line), "Content-Range: bytes %llu-%llu/%llu\r\n",
                 (unsigned long long)r[0].start, (unsigned long long)r[0].end,
                 (unsigned long long)full_len);
        header_line(dl, line);
        header_line(dl, "Content-Type: application/octet-stream\r\n");
    } else {
        snprintf(line, sizeof(line),
                 "Content-Type: multipart/byteranges; boundary=%s\r\n",
                 boundary);
        header_line(dl, line);
    }
    snprintf(line, sizeof(line), "Content-Length: %llu\r\n",
             (unsigned long long)blen);
    header_line(dl, line);
    header_line(dl, "\r\n");

    /* Body, fragmented */
    bool error_reported = false;
    size_t off = 0, calls = 0;
    while(off < blen) {
        size_t fl = next_frag(frag, blen - off);
        char *piece = malloc(fl);       /* exact size: overreads show in ASan */
        memcpy(piece, body + off, fl);
        size_t ret = zck_write_chunk_cb(piece, 1, fl, dl);
        free(piece);
        calls++;
        if(ret != fl) {
            error_reported = true;      /* transport aborts the transfer */
            break;
        }
        off += fl;
    }

    /* Inspect result */
    unsigned char *after = malloc(full_len);
    if(pread(fd, after, full_len, 0) != (ssize_t)full_len)
        HARNESS_FAIL("read back");
    struct stat st;
    fstat(fd, &st);

    int bad = 0;
    char why[1024] = "";
#define VIOLATION(...) do { bad++; size_t wl = strlen(why); \
        snprintf(why + wl, sizeof(why) - wl, "\n      - " __VA_ARGS__); } while(0)

    if((size_t)st.st_size != full_len)
        VIOLATION("file size changed to %llu", (unsigned long long)st.st_size);
    if(memcmp(after, before, hlen) != 0)
        VIOLATION("header modified");
    i = 0;
    for(zckChunk *c = zck_get_first_chunk(tgt); c; c = zck_get_next_chunk(c), i++) {
        int v = zck_get_chunk_valid(c);
        unsigned char *p = after + cstart[i];
        if(!wanted[i]) {
            if(memcmp(p, before + cstart[i], clen[i]) != 0)
                VIOLATION("chunk %d (not requested) modified", i);
            if(v != 1)
                VIOLATION("chunk %d (already valid) now marked %d", i, v);
            continue;
        }
        if(corrupt < 0) {
            if(memcmp(p, full + cstart[i], clen[i]) != 0)
                VIOLATION("chunk %d has wrong bytes", i);
            if(v != 1)
                VIOLATION("chunk %d marked %d, expected valid", i, v);
        } else if(i < corrupt) {
            if(memcmp(p, full + cstart[i], clen[i]) != 0 || v != 1)
                VIOLATION("chunk %d (before the damaged one) not filled/valid", i);
        } else if(i == corrupt) {
            bool zero = true;
            for(size_t k = 0; k < clen[i]; k++)
                if(p[k] != 0)
                    zero = false;
            if(!zero)
                VIOLATION("damaged chunk %d is not zero-filled", i);
            if(v != -1)
                VIOLATION("damaged chunk %d marked %d, expected failed (-1)", i, v);
        } else {
            /* after the damaged chunk: may be untouched or correctly filled,
             * but never valid with wrong bytes */
            if(v == 1 && memcmp(p, full + cstart[i], clen[i]) != 0)
                VIOLATION("chunk %d valid with wrong bytes", i);
        }
    }
    if(corrupt < 0 && error_reported)
        VIOLATION("callback reported an error for a good response");
    if(corrupt >= 0 && !error_reported)
        VIOLATION("chunk %d failed its checksum but every callback "
                  "invocation reported success", corrupt);

    printf("  %-34s %-24s ranges=%d calls=%-5llu %s%s\n", name, frag_name[frag],
           nr, (unsigned long long)calls, bad ? "VIOLATED" : "ok", why);
    if(bad)
        violations++;

    free(after);
    free(body);
    free(wire);
    free(before);
    free(rs);
    if(!zck_dl_set_range(dl, NULL))
        HARNESS_FAIL("unset range");
    zck_range_free(&range);
    zck_dl_free(&dl);
    zck_free(&tgt);
    close(fd);
    unlink(path);
}

int main(int argc, char **argv) {
    if(argc != 2) {
        fprintf(stderr, "usage: %s <workdir>\n", argv[0]);
        return 2;
    }
    workdir = argv[1];
    zck_set_log_level(ZCK_LOG_NONE);

    char spath[4096];
    snprintf(spath, sizeof(spath), "%s/source.zck", workdir);
    build_source(spath);

    /* chunk 0 is the (empty) dict chunk, data chunks are 1..NCHUNKS */
    /* A: chunks 3..6 missing and adjacent -> one range -> plain 206 body */
    bool have_single[64] = {1, 1, 1, 0, 0, 0, 0, 1, 1, 1};
    /* B: scattered -> several ranges -> multipart/byteranges */
    bool have_multi[64]  = {1, 1, 0, 0, 1, 0, 1, 0, 0, 1};

    frag_t frags[] = {FR_ONE, FR_SEVEN, FR_RANDOM, FR_4K, FR_WHOLE};
    int nf = sizeof(frags) / sizeof(frags[0]);

    printf("good responses\n");
    for(int f = 0; f < nf; f++)
        scenario("single range", have_single, -1, frags[f]);
    for(int f = 0; f < nf; f++)
        scenario("multipart", have_multi, -1, frags[f]);

    printf("responses with one chunk damaged in transit\n");
    for(int f = 0; f < nf; f++)
        scenario("single range, first chunk bad", have_single, 3, frags[f]);
    for(int f = 0; f < nf; f++)
        scenario("single range, third chunk bad", have_single, 5, frags[f]);
    for(int f = 0; f < nf; f++)
        scenario("single range, last chunk bad", have_single, 6, frags[f]);
    for(int f = 0; f < nf; f++)
        scenario("multipart, chunk 5 bad", have_multi, 5, frags[f]);
    for(int f = 0; f < nf; f++)
        scenario("multipart, chunk 8 bad", have_multi, 8, frags[f]);

    unlink(spath);
    free(full);
    if(violations) {
        printf("RESULT: property VIOLATED in %d scenario(s)\n", violations);
        return 1;
    }
    printf("RESULT: property holds in all scenarios\n");
    return 0;
}

#include <stdio.h>
#include <stdlib.h>
#include <fcntl.h>
#include <unistd.h>
#include <string.h>
#include <zck.h>
#include "zck_private.h"
int main(void){
  int fd=open("/tmp/seedwork/c10e.zck",O_RDWR|O_CREAT|O_TRUNC,0644);
  zckCtx *w=zck_create(); zck_init_write(w,fd);
  zck_set_ioption(w,ZCK_COMP_TYPE,ZCK_COMP_NONE); zck_set_ioption(w,ZCK_MANUAL_CHUNK,1);
  char b[300]; memset(b,'A',300); zck_write(w,b,300); zck_end_chunk(w); memset(b,'B',300); zck_write(w,b,300); zck_end_chunk(w);
  zck_close(w); zck_free(&w); lseek(fd,0,SEEK_SET);
  zckCtx *r=zck_create(); if(!zck_init_read(r,fd)){puts("open failed");return 2;}
  zckRange *rg=zck_get_missing_range(r,-1);
  char *s=zck_get_range_char(r,rg);
  printf("chunks=%zd range count=%d string=%s\n",zck_get_chunk_count(r),zck_get_range_count(rg),s);
  int n=0; for(zckChunk *c=rg->index.first;c;c=c->next){printf("range index entry %d: start=%zu size=%zu -> target chunk %d\n",n++,c->start,c->comp_length,c->src->number);}
  zckDL *dl=zck_dl_init(r); zck_dl_set_range(dl,rg);
  /* count entries of the range index through the public API is not possible; print via private walk */
  return 0;
}

#include <stdio.h>
#include <stdlib.h>
#include <fcntl.h>
#include <unistd.h>
#include <string.h>
#include <zck.h>
int main(){ int fd=open("h.zck",O_CREAT|O_TRUNC|O_RDWR,0644); zckCtx*z=zck_create(); if(!zck_init_write(z,fd)) return 1;
  if(!zck_set_ioption(z,ZCK_CHUNK_MAX,4096)) return 2;
  char*d=malloc(20000); for(int i=0;i<20000;i++) d[i]=(char)(i*7+i/13);
  alarm(5); printf("writing...\n"); fflush(stdout);
  printf("w=%zd\n", zck_write(z,d,20000)); printf("close=%d\n", zck_close(z)); return 0; }

#include <stdio.h>
#include <stdlib.h>
#include <string.h>
#include <fcntl.h>
#include <unistd.h>
#include <zck.h>
int main(void){
  int out=open("/tmp/seedwork/fd0.zck",O_RDWR|O_CREAT|O_TRUNC,0644);
  close(0);  /* descriptor 0 is free: the temp file will get it */
  zckCtx *w=zck_create(); if(!zck_init_write(w,out)) {fprintf(stderr,"init_write failed\n"); return 2;}
  char dict[64]; memset(dict,'D',64);
  if(!zck_set_soption(w,ZCK_COMP_DICT,dict,64)) return 2;
  char b[5000]; memset(b,'x',5000);
  if(zck_write(w,b,5000)!=5000) return 2;
  if(!zck_close(w)) {fprintf(stderr,"close failed: %s\n",zck_get_error(w)); return 2;}
  zck_free(&w); lseek(out,0,SEEK_SET);
  zckCtx *r=zck_create(); if(!zck_init_read(r,out)) {fprintf(stderr,"open failed: %s\n", zck_get_error(r)); return 1;}
  char rb[6000]; ssize_t n=zck_read(r,rb,6000); int ok = n==5000 && !memcmp(rb,b,5000) && zck_close(r);
  fprintf(stderr,"read back %zd bytes, chunks=%zd ok=%d\n", n, zck_get_chunk_count(r), ok);
  return ok?0:1; }

/*
 * Side findings for C19 in the UNCHANGED code (not part of the seeded change).
 *
 *  part 1: get_tmp_fd() (src/lib/zck.c) brackets mkstemp() with
 *          umask(0177) ... umask(old).  umask is process wide, so two threads
 *          calling zck_init_write() on two independent contexts can leave the
 *          process with umask 0177 for good.
 *  part 2: zck_hash_name_from_type() / zck_comp_name_from_type() format unknown
 *          type numbers into a static buffer (hash.c / comp.c "unknown[]"); two
 *          contexts that are given an unsupported type at the same time can get
 *          each other's number in their error message.
 *
 * Both schedules are forced by interposing umask() / snprintf().
 * Prints what it observed; exit 0 = nothing observed, 1 = at least one finding
 * reproduced, 2 = harness problem.
 *
 * build: cc -pthread -rdynamic -I<wt>/_build/include side_finding.c \
 *           -L<wt>/_build/src/lib -lzck -Wl,-rpath,<wt>/_build/src/lib
 */
#define _GNU_SOURCE
#include <errno.h>
#include <fcntl.h>
#include <pthread.h>
#include <stdarg.h>
#include <stdio.h>
#include <stdlib.h>
#include <string.h>
#include <sys/stat.h>
#include <sys/syscall.h>
#include <time.h>
#include <unistd.h>
#include <zck.h>

static pthread_mutex_t mtx = PTHREAD_MUTEX_INITIALIZER;
static pthread_cond_t  cnd = PTHREAD_COND_INITIALIZER;
static __thread int slot = -1;
static int timed_out;

static void wait_until(volatile long *v, long want) {
    struct timespec ts;
    clock_gettime(CLOCK_REALTIME, &ts);
    ts.tv_sec += 20;
    while(*v < want)
        if(pthread_cond_timedwait(&cnd, &mtx, &ts) == ETIMEDOUT) {
            timed_out = 1;
            break;
        }
}

/* ---------------- part 1: umask ------------------------------------ */

static int pace_umask;
static volatile long umask_set[2];      /* thread has installed 0177      */
static volatile long umask_restored[2]; /* thread has put its "old" back  */

mode_t umask(mode_t m) {
    if(!pace_umask || slot < 0)
        return syscall(SYS_umask, m);

    int me = slot, other = 1 - slot;
    mode_t old;
    pthread_mutex_lock(&mtx);
    if(!umask_set[me]) {
        /* the narrowing call: both threads narrow before either restores */
        old = syscall(SYS_umask, m);
        umask_set[me] = 1;
        pthread_cond_broadcast(&cnd);
        wait_until(&umask_set[other], 1);
    } else {
        /* the restoring call: the thread that saved the narrowed mask as its
         * "old" value restores last */
        if(m == 0177)
            wait_until(&umask_restored[other], 1);
        old = syscall(SYS_umask, m);
        umask_restored[me] = 1;
        pthread_cond_broadcast(&cnd);
    }
    pthread_mutex_unlock(&mtx);
    return old;
}

static void *writer(void *arg) {
    char *path = arg;
    int fd = open(path, O_WRONLY | O_CREAT | O_TRUNC, 0644);
    zckCtx *zck = zck_create();
    slot = (path[strlen(path) - 1] == 'a') ? 0 : 1;
    int ok = fd >= 0 && zck && zck_init_write(zck, fd);
    slot = -1;
    if(ok) {
        if(zck_write(zck, "hello", 5) != 5 || !zck_close(zck))
            ok = 0;
    }
    zck_free(&zck);
    if(fd >= 0)
        close(fd);
    return ok ? arg : NULL;
}

/* ---------------- part 2: "Unknown(n)" name buffer ------------------ */

static int pace_snprintf;
static volatile long snprintf_done[2];

int snprintf(char *s, size_t n, const char *fmt, ...) {
    va_list ap;
    va_start(ap, fmt);
    int r = vsnprintf(s, n, fmt, ap);
    va_end(ap);
    if(pace_snprintf && slot >= 0) {
        int me = slot, other = 1 - slot;
        pthread_mutex_lock(&mtx);
        long mine = ++snprintf_done[me];
        pthread_cond_broadcast(&cnd);
        wait_until(&snprintf_done[other], mine);
        pthread_mutex_unlock(&mtx);
    }
    return r;
}

struct hjob { int slot; int type; char msg[512]; };

static void *bad_hash(void *arg) {
    struct hjob *j = arg;
    int fd = open("/dev/null", O_WRONLY);
    zckCtx *zck = zck_create();
    if(fd < 0 || !zck || !zck_init_write(zck, fd))
        return NULL;
    slot = j->slot;
    if(zck_set_ioption(zck, ZCK_HASH_FULL_TYPE, j->type))
        fprintf(stderr, "harness: unsupported hash type was accepted\n");
    slot = -1;
    snprintf(j->msg, sizeof(j->msg), "%s", zck_get_error(zck));
    /* let the other thread run to the end even if we took fewer steps */
    pthread_mutex_lock(&mtx);
    snprintf_done[j->slot] = 1000;
    pthread_cond_broadcast(&cnd);
    pthread_mutex_unlock(&mtx);
    zck_free(&zck);
    close(fd);
    return arg;
}

int main(int argc, char **argv) {
    if(argc != 2) {
        fprintf(stderr, "usage: %s <tmpdir>\n", argv[0]);
        return 2;
    }
    int found = 0;
    pthread_t t[2];

    /* part 1 */
    char pa[4096], pb[4096];
    snprintf(pa, sizeof(pa), "%s/side_a", argv[1]);
    snprintf(pb, sizeof(pb), "%s/side_b", argv[1]);
    syscall(SYS_umask, 022);
    pace_umask = 1;
    void *ra, *rb;
    pthread_create(&t[0], NULL, writer, pa);
    pthread_create(&t[1], NULL, writer, pb);
    pthread_join(t[0], &ra);
    pthread_join(t[1], &rb);
    pace_umask = 0;
    if(!ra || !rb || timed_out) {
        fprintf(stderr, "harness: part 1 did not run\n");
        return 2;
    }
    mode_t now = syscall(SYS_umask, 022);
    printf("part 1: process umask before 0022, after two concurrent "
           "zck_init_write(): %04o%s\n", (unsigned)now,
           now != 022 ? "   <-- changed for the whole process" : "");
    if(now != 022)
        found = 1;

    /* part 2 */
    struct hjob h[2] = { { 0, 1111 }, { 1, 2222 } };
    pace_snprintf = 1;
    pthread_create(&t[0], NULL, bad_hash, &h[0]);
    pthread_create(&t[1], NULL, bad_hash, &h[1]);
    pthread_join(t[0], &ra);
    pthread_join(t[1], &rb);
    pace_snprintf = 0;
    if(!ra || !rb || timed_out) {
        fprintf(stderr, "harness: part 2 did not run\n");
        return 2;
    }
    printf("part 2: context given hash type 1111 reports: %s", h[0].msg);
    printf("part 2: context given hash type 2222 reports: %s", h[1].msg);
    if(!strstr(h[0].msg, "1111") || !strstr(h[1].msg, "2222")) {
        printf("part 2:    <-- an error message names the other context's "
               "type\n");
        found = 1;
    }
    return found;
}

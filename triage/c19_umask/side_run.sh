#!/bin/sh
# side_run.sh <worktree>: reproduces the side findings described in NOTES.md
# (they are present in the UNCHANGED code).  exit 1 = reproduced, 0 = not seen.
W=$(cd "$1" && pwd) || exit 2
HERE=$(cd "$(dirname "$0")" && pwd) || exit 2
BASE=/tmp/zcsa-triage-c19
mkdir -p "$BASE" || exit 2
T=$(mktemp -d "$BASE/side.XXXXXX") || exit 2
trap 'rm -rf "$T"; rmdir "$BASE" 2>/dev/null' EXIT INT TERM
cc -g -Wall -pthread -rdynamic -I"$W/_build/include" -o "$T/sf" "$HERE/side_finding.c" \
    -L"$W/_build/src/lib" -lzck -Wl,-rpath,"$W/_build/src/lib" || exit 2
mkdir "$T/work" || exit 2
TMPDIR="$T/work" timeout 100 "$T/sf" "$T/work"

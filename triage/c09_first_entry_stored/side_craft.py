import sys, hashlib
src, dst = sys.argv[1], sys.argv[2]
b = open(src,'rb').read()
def compint(b, o):
    v = 0; s = 0
    while True:
        c = b[o]; o += 1
        v |= (c & 0x7f) << s; s += 7
        if c & 0x80: return v, o
assert b[:5] == b'\0ZCK1'
o = 5
ht, o = compint(b, o); assert ht == 1      # sha256
hlen, o = compint(b, o)
dig_loc = o
lead_end = o + 32
hdr_end = lead_end + hlen
o = lead_end
data_dig_loc = o; o += 32
flags, o = compint(b, o)
ctype, o = compint(b, o)
assert flags == 0
isize, o = compint(b, o)
iht, o = compint(b, o); assert iht == 3    # sha512/128
cnt, o = compint(b, o)
e0 = o
assert b[e0:e0+16] == bytes(16) and b[e0+16] == 0x80 and b[e0+17] == 0x80
N = 100
extra = bytes((i * 7 + 3) & 0xff for i in range(N))
nb = bytearray(b[:hdr_end]) 
nb[e0:e0+16] = hashlib.sha512(extra).digest()[:16]
nb[e0+16] = 0x80 | N           # comp_length = N, length stays 0
data = extra + b[hdr_end:]
nb[data_dig_loc:data_dig_loc+32] = hashlib.sha256(data).digest()
h = hashlib.sha256(bytes(nb[:dig_loc]) + bytes(nb[lead_end:hdr_end])).digest()
nb[dig_loc:dig_loc+32] = h
open(dst,'wb').write(bytes(nb) + data)
print("header", hdr_end, "chunks", cnt)

/* triage: read_lead() shrinks its 25-byte read-ahead buffer to the lead size when the lead is
 * shorter than the read-ahead (overall checksum type SHA-512/128: 5+1+1+16 = 23 bytes) but still
 * records header_size = 25; read_header_from_file() then treats two bytes beyond the allocation
 * as already loaded.  ASan: heap-buffer-overflow read (hash_update over the header). */
#include <stdio.h>
#include <stdlib.h>
#include <string.h>
#include <fcntl.h>
#include <unistd.h>
#include <zck.h>
int main(int argc, char **argv) {
    const char *p = argc > 1 ? argv[1] : "/tmp/c03h.zck";
    int fd = open(p, O_RDWR | O_CREAT | O_TRUNC, 0600);
    zckCtx *z = zck_create();
    if(!zck_init_write(z, fd)) return 2;
    if(!zck_set_ioption(z, ZCK_HASH_FULL_TYPE, ZCK_HASH_SHA512_128)) return 2;
    char buf[5000]; for(int i = 0; i < 5000; i++) buf[i] = (char)(i * 7);
    if(zck_write(z, buf, sizeof(buf)) < 0 || !zck_close(z)) { printf("write failed: %s\n", zck_get_error(z)); return 2; }
    zck_free(&z);
    lseek(fd, 0, SEEK_SET);
    z = zck_create();
    if(!zck_init_read(z, fd)) { printf("open failed: %s\n", zck_get_error(z)); return 1; }
    printf("lead %zd header %zd\n", zck_get_lead_length(z), zck_get_header_length(z));
    char out[6000]; ssize_t n = zck_read(z, out, sizeof(out));
    printf("read %zd close %d same %d\n", n, zck_close(z), n == 5000 && !memcmp(out, buf, 5000));
    zck_free(&z); close(fd); unlink(p);
    return 0;
}

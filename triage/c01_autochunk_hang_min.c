/* triage: automatic chunking never returns when ZCK_CHUNK_MIN is above the automatic maximum
 * (4 x average = 131072): the boundary forced at chunk_auto_max is refused by comp_end_chunk()
 * (chunk below chunk_min_size), i stays 0 and nothing is consumed.  SIGALRM after 5 s. */
#include <stdio.h>
#include <stdlib.h>
#include <fcntl.h>
#include <unistd.h>
#include <string.h>
#include <zck.h>
int main(){ int fd=open("/tmp/hmin.zck",O_CREAT|O_TRUNC|O_RDWR,0644); zckCtx*z=zck_create(); if(!zck_init_write(z,fd)) return 1;
  if(!zck_set_ioption(z,ZCK_CHUNK_MAX,10485760)) return 2;
  if(!zck_set_ioption(z,ZCK_CHUNK_MIN,131073)) return 2;
  size_t n=1000000; char*d=malloc(n); unsigned x=1; for(size_t i=0;i<n;i++){ x=x*1103515245+12345; d[i]=(char)(x>>16);} 
  alarm(5); printf("writing...\n"); fflush(stdout);
  printf("w=%zd\n", zck_write(z,d,n)); printf("close=%d\n", zck_close(z));
  lseek(fd,0,SEEK_SET); zckCtx*r=zck_create(); if(!zck_init_read(r,fd)) return 3;
  char*o=malloc(n+10); ssize_t got=zck_read(r,o,n+10); printf("read=%zd same=%d close=%d\n", got, got==(ssize_t)n&&!memcmp(o,d,n), zck_close(r));
  for(zckChunk*c=zck_get_first_chunk(r);c;c=zck_get_next_chunk(c)) printf("%zd ", zck_get_chunk_size(c)); printf("\n");
  unlink("/tmp/hmin.zck"); return 0; }

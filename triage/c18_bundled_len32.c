/* triage: the bundled SHA-256/512 keep the message length in 32-bit counters and write a 32-bit bit count into
 * the padding: a message of 2^29 bytes (512 MiB) or more gets the wrong length field, so the digest differs from
 * the standard algorithm (and from the OpenSSL build).  Build: cc -O2 -I/repo/src/lib/hash/bundled/sha2
 * c18_bundled_len32.c /repo/src/lib/hash/bundled/sha2/sha2.c ; compare with python3 hashlib. */
#include <stdio.h>
#include <stdlib.h>
#include <string.h>
#include "sha2.h"
int main(int argc, char **argv) {
    unsigned long long n = argc > 1 ? strtoull(argv[1], 0, 0) : (1ULL << 29) + 5;
    static unsigned char buf[1 << 20];
    memset(buf, 'a', sizeof(buf));
    sha256_ctx c; sha256_init(&c);
    sha512_ctx d; sha512_init(&d);
    unsigned long long left = n;
    while(left) { unsigned int k = left > sizeof(buf) ? sizeof(buf) : (unsigned int)left; sha256_update(&c, buf, k); sha512_update(&d, buf, k); left -= k; }
    unsigned char o[64]; sha256_final(&c, o);
    for(int i = 0; i < 32; i++) printf("%02x", o[i]); printf("\n");
    sha512_final(&d, o);
    for(int i = 0; i < 64; i++) printf("%02x", o[i]); printf("\n");
    return 0;
}

/* LD_PRELOAD shim: the FI_NTH-th read() on a descriptor whose path contains
 * FI_PATH returns only half of the requested bytes (a short, successful read) */
#define _GNU_SOURCE
#include <dlfcn.h>
#include <unistd.h>
#include <stdlib.h>
#include <string.h>
#include <stdio.h>
#include <sys/types.h>

static int match(int fd) {
    const char *p = getenv("FI_PATH");
    char l[64], b[4096];
    if(!p)
        return 0;
    snprintf(l, sizeof(l), "/proc/self/fd/%d", fd);
    ssize_t n = readlink(l, b, sizeof(b) - 1);
    if(n < 0)
        return 0;
    b[n] = 0;
    return strstr(b, p) != NULL;
}

ssize_t read(int fd, void *buf, size_t c) {
    static ssize_t (*real)(int, void *, size_t);
    static int cnt = 0;
    if(!real)
        real = dlsym(RTLD_NEXT, "read");
    if(match(fd)) {
        const char *n = getenv("FI_NTH");
        if(++cnt == (n ? atoi(n) : 1) && c > 1)
            return real(fd, buf, c / 2);
    }
    return real(fd, buf, c);
}

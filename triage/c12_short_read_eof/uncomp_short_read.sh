#!/bin/sh
# Side finding (unchanged code): unzck of a file written with "zck -u" exits 0
# with a truncated output when one read() of the archive is short.
# usage: uncomp_short_read.sh <worktree>; prints the cases, exit 1 if any found
WT=$(cd "$1" && pwd) || exit 2
HERE=$(cd "$(dirname "$0")" && pwd)
BASE=/tmp/zcsa-triage-c12
mkdir -p "$BASE" && TMP=$(mktemp -d "$BASE/side.XXXXXX") || exit 2
trap 'rm -rf "$TMP"' EXIT INT TERM
BIN="$WT/_build/src"
export LD_LIBRARY_PATH="$BIN/lib"
cc -shared -fPIC -o "$TMP/fi.so" "$HERE/fi.c" -ldl || exit 2
cd "$TMP" || exit 2
python3 -c "
import random
random.seed(1)
open('in.bin','wb').write(bytes(random.getrandbits(8) for _ in range(400000)))" || exit 2
found=0
for mode in "-u" ""; do
    "$BIN/zck" $mode -o a.zck in.bin >/dev/null 2>&1 || exit 2
    n=1
    while [ $n -le 60 ]; do
        rm -f a
        FI_PATH=a.zck FI_NTH=$n LD_PRELOAD="$TMP/fi.so" "$BIN/unzck" a.zck >/dev/null 2>&1
        rc=$?
        if [ $rc -eq 0 ] && ! cmp -s a in.bin; then
            echo "zck ${mode:-(default)}: short read #$n -> unzck exit 0, output $(stat -c %s a) of 400000 bytes"
            found=1
        fi
        n=$((n+1))
    done
done
[ $found -eq 0 ] && echo "no case found"
exit $found

#include <stdio.h>
#include <stdlib.h>
#include <fcntl.h>
#include <unistd.h>
#include <string.h>
#include <zck.h>
static long readall(const char*fn){ int fd=open(fn,O_RDONLY); zckCtx*z=zck_create(); if(!zck_init_read(z,fd)){printf("open fail\n");return -1;} char b[4096]; long t=0; ssize_t r; while((r=zck_read(z,b,sizeof b))>0) t+=r; printf("  read total=%ld last=%zd close=%d\n",t,r,zck_close(z)); return t;}
int main(){
  // C01-a: manual chunking, min 100, final chunk of 10 bytes
  { int fd=open("m.zck",O_CREAT|O_TRUNC|O_RDWR,0644); zckCtx*z=zck_create(); if(!zck_init_write(z,fd)) return 1;
    if(!zck_set_ioption(z,ZCK_MANUAL_CHUNK,1)) return 2;
    if(!zck_set_ioption(z,ZCK_CHUNK_MAX,100000)||!zck_set_ioption(z,ZCK_CHUNK_MIN,100)) { printf("min fail %s\n", zck_get_error(z)); }
    char d[1000]; memset(d,'a',sizeof d);
    printf("w=%zd\n", zck_write(z,d,500)); printf("e=%zd\n", zck_end_chunk(z));
    printf("w=%zd\n", zck_write(z,d,10)); 
    printf("close=%d\n", zck_close(z)); close(fd);
    printf("C01-a wrote 510 bytes; reading back:\n"); readall("m.zck"); }
  // C14: request last chunk then another
  { int fd=open("/repo/test/files/LICENSE.nodict.fodt.zck",O_RDONLY); zckCtx*z=zck_create(); if(!zck_init_read(z,fd)) return 1;
    ssize_t n=zck_get_chunk_count(z); zckChunk*last=zck_get_chunk(z,n-1), *c1=zck_get_chunk(z,1);
    char*b=malloc(1<<20);
    printf("C14 zstd: c1=%zd ", zck_get_chunk_data(c1,b,zck_get_chunk_size(c1)));
    printf("last=%zd (size %zd) ", zck_get_chunk_data(last,b,zck_get_chunk_size(last)), zck_get_chunk_size(last));
    printf("c1 again=%zd (size %zd)\n", zck_get_chunk_data(c1,b,zck_get_chunk_size(c1)), zck_get_chunk_size(c1)); }
  { int fd=open("/repo/test/files/LICENSE.nocomp.fodt.zck",O_RDONLY); zckCtx*z=zck_create(); if(!zck_init_read(z,fd)) return 1;
    zckChunk*c1=zck_get_chunk(z,1),*c2=zck_get_chunk(z,2); char*b=malloc(1<<20);
    printf("C14 nocomp: c1=%zd ", zck_get_chunk_data(c1,b,zck_get_chunk_size(c1)));
    printf("c2=%zd (size %zd)\n", zck_get_chunk_data(c2,b,zck_get_chunk_size(c2)), zck_get_chunk_size(c2)); }
  return 0; }

import hashlib,sys
def ci(v):
    out=bytearray()
    while True:
        b=v%128; v//=128
        if v==0: out.append(b+128); return bytes(out)
        out.append(b)
def build(index_body, comp=0, flags=0, datadigest=None, raw_index_size=None, sig=b''):
    index = index_body
    isz = len(index) if raw_index_size is None else raw_index_size
    datadigest = datadigest or hashlib.sha256(b'').digest()
    preface = datadigest + ci(flags) + ci(comp) + (isz if isinstance(isz,bytes) else ci(isz))
    sigs = sig or ci(0)
    hdr = preface + index + sigs
    lead0 = b'\0ZCK1' + ci(1) + ci(len(hdr))
    h = hashlib.sha256(lead0 + hdr).digest()
    return lead0 + h + hdr
# 1. empty index: hash type 1 (sha256), count 0, no entries
open('emptyidx.zck','wb').write(build(ci(1)+ci(0)))
# 2. count mismatch: count says 0 but one (dict) entry present -> division by zero in zck_delta_size
entry = bytes(32)+ci(0)+ci(0)
open('count0.zck','wb').write(build(ci(1)+ci(0)+entry))
# 3. narrowing: comp type = 2^32 (decodes to 0 after (int) cast)
b=build(ci(1)+ci(1)+entry)
open('ok.zck','wb').write(b)
def build2(comp_bytes):
    index=ci(1)+ci(1)+entry
    preface=hashlib.sha256(b'').digest()+ci(0)+comp_bytes+ci(len(index))
    hdr=preface+index+ci(0)
    lead0=b'\0ZCK1'+ci(1)+ci(len(hdr)); return lead0+hashlib.sha256(lead0+hdr).digest()+hdr
open('narrow.zck','wb').write(build2(ci(2**32)))
# 4. ten-byte compint wrapping to 0 for comp type: 9 zero bytes then 0x82 (payload 2 * 128^9 = 2^64)
open('wrap.zck','wb').write(build2(bytes(9)+bytes([0x82])))

#include <stdio.h>
#include <fcntl.h>
#include <unistd.h>
#include <string.h>
#include <zck.h>
int main(int argc,char**argv){
  // 1. hex ':' accepted?
  { int fd=open(argv[1],O_RDONLY); zckCtx*z=zck_create(); zck_init_adv_read(z,fd);
    zck_set_ioption(z,ZCK_VAL_HEADER_HASH_TYPE,1);
    char d[65]; memset(d,':',64); d[64]=0;
    printf("digest of ':' accepted=%d\n", zck_set_soption(z,ZCK_VAL_HEADER_DIGEST,d,64)); }
  // 2. range char on fully valid file
  { int fd=open(argv[1],O_RDONLY); zckCtx*z=zck_create(); if(!zck_init_read(z,fd)) return 1;
    printf("validate=%d\n", zck_validate_checksums(z));
    zckRange*r=zck_get_missing_range(z,-1); printf("count=%d\n", zck_get_range_count(r)); fflush(stdout);
    char*s=zck_get_range_char(z,r); printf("s=%p\n",(void*)s); }
  return 0;}

#!/bin/sh
# Side finding (present in the UNCHANGED code): zckdl cannot fetch a valid
# zchunk file whose overall hash type is SHA-512/128.
#
# usage: side_finding.sh <worktree>
# prints the zckdl exit code for each overall hash type; exits 1 if any of the
# downloads failed although unzck accepts the file, 0 otherwise.

WT=$(cd "${1:?usage: $0 <worktree>}" && pwd)
HERE=$(cd "$(dirname "$0")" && pwd)
BIN="$WT/_build/src"
LD_LIBRARY_PATH="$WT/_build/src/lib${LD_LIBRARY_PATH:+:$LD_LIBRARY_PATH}"
export LD_LIBRARY_PATH
unset http_proxy HTTP_PROXY all_proxy ALL_PROXY

mkdir -p /tmp/zcsa-triage-c04 || exit 2
TMP=$(mktemp -d /tmp/zcsa-triage-c04/side.XXXXXX) || exit 2
SRV_PID=
cleanup() {
    [ -n "$SRV_PID" ] && kill "$SRV_PID" 2>/dev/null && wait "$SRV_PID" 2>/dev/null
    rm -rf "$TMP"
    rmdir /tmp/zcsa-triage-c04 2>/dev/null
}
trap cleanup EXIT
cd "$TMP" || exit 2

INC="$WT/_build/include"
[ -f "$INC/zck.h" ] || INC="$WT/include"
cc -I"$INC" "$HERE/side_mk.c" -o side_mk -L"$WT/_build/src/lib" -lzck || exit 2

result=0
for h in 0 1 2 3; do
    rm -rf srv out port; mkdir srv out
    ./side_mk srv/S.zck $h || exit 2
    "$BIN/unzck" -c srv/S.zck >/dev/null 2>&1 || { echo "unzck rejects the file" >&2; exit 2; }
    python3 "$HERE/range_server.py" "$TMP/srv" 1000 "$TMP/port" "$TMP/log.$h" &
    SRV_PID=$!
    n=0
    while [ ! -s port ]; do
        n=$((n + 1)); [ $n -gt 100 ] && exit 2
        sleep 0.1
    done
    ( cd out && timeout 60 "$BIN/zckdl" "http://127.0.0.1:$(cat "$TMP/port")/S.zck" >zckdl.out 2>&1 )
    rc=$?
    kill "$SRV_PID" 2>/dev/null; wait "$SRV_PID" 2>/dev/null; SRV_PID=
    echo "overall hash type $h: zckdl exit code $rc"
    if [ $rc -ne 0 ] || ! cmp -s out/S.zck srv/S.zck; then
        sed 's/^/   | /' out/zckdl.out
        result=1
    fi
done
exit $result

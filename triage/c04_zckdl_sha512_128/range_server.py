#!/usr/bin/env python3
"""Minimal HTTP/1.1 file server with byte-range support for the C04 demo.

It behaves like a stock Apache httpd as far as ranges are concerned:
  * one range            -> 206 with a Content-Range header
  * 2..MAX ranges        -> 206 multipart/byteranges
  * more than MAX ranges -> the Range header is ignored and the whole file is
                            sent with 200 (Apache's MaxRanges behaviour)

Every request is appended to the log file as one JSON line.

usage: range_server.py <docroot> <max_ranges> <portfile> <logfile>
"""
import json
import os
import socket
import sys
from http.server import BaseHTTPRequestHandler, HTTPServer

DOCROOT, MAX_RANGES, PORTFILE, LOGFILE = sys.argv[1], int(sys.argv[2]), sys.argv[3], sys.argv[4]
BOUNDARY = "5e1f3a9c0d7b4e62"


def log(entry):
    with open(LOGFILE, "a") as f:
        f.write(json.dumps(entry) + "\n")


class Handler(BaseHTTPRequestHandler):
    protocol_version = "HTTP/1.1"

    def log_message(self, *args):
        pass

    def send_body(self, body):
        try:
            self.wfile.write(body)
            self.wfile.flush()
        except (BrokenPipeError, ConnectionResetError):
            pass

    def do_GET(self):
        self.close_connection = True
        path = os.path.join(DOCROOT, os.path.basename(self.path))
        if not os.path.isfile(path):
            self.send_response(404)
            self.send_header("Content-Length", "0")
            self.send_header("Connection", "close")
            self.end_headers()
            log({"status": 404, "path": self.path})
            return
        with open(path, "rb") as f:
            data = f.read()
        total = len(data)

        ranges = []
        hdr = self.headers.get("Range")
        if hdr and hdr.startswith("bytes="):
            for spec in hdr[len("bytes="):].split(","):
                first, _, last = spec.strip().partition("-")
                first = int(first)
                last = min(int(last), total - 1) if last else total - 1
                ranges.append((first, last))

        if not ranges or len(ranges) > MAX_RANGES:
            log({"status": 200, "asked": ranges})
            self.send_response(200)
            self.send_header("Content-Type", "application/octet-stream")
            self.send_header("Accept-Ranges", "bytes")
            self.send_header("Content-Length", str(total))
            self.send_header("Connection", "close")
            self.end_headers()
            self.send_body(data)
            return

        log({"status": 206, "asked": ranges})
        if len(ranges) == 1:
            first, last = ranges[0]
            body = data[first:last + 1]
            self.send_response(206)
            self.send_header("Content-Type", "application/octet-stream")
            self.send_header("Content-Range", "bytes %d-%d/%d" % (first, last, total))
        else:
            body = b""
            for first, last in ranges:
                body += ("\r\n--%s\r\nContent-Type: application/octet-stream\r\n"
                         "Content-Range: bytes %d-%d/%d\r\n\r\n"
                         % (BOUNDARY, first, last, total)).encode()
                body += data[first:last + 1]
            body += ("\r\n--%s--\r\n" % BOUNDARY).encode()
            self.send_response(206)
            self.send_header("Content-Type",
                             "multipart/byteranges; boundary=%s" % BOUNDARY)
        self.send_header("Content-Length", str(len(body)))
        self.send_header("Connection", "close")
        self.end_headers()
        self.send_body(body)


class Server(HTTPServer):
    address_family = socket.AF_INET
    allow_reuse_address = True


srv = Server(("127.0.0.1", 0), Handler)
with open(PORTFILE + ".tmp", "w") as f:
    f.write(str(srv.server_address[1]))
os.rename(PORTFILE + ".tmp", PORTFILE)
srv.serve_forever()

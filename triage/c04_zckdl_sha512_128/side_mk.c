/* Side finding helper: write a small, valid zchunk file whose overall
 * (header/data) hash type is argv[2] (3 = SHA-512/128). */
#include <stdio.h>
#include <stdlib.h>
#include <fcntl.h>
#include <unistd.h>
#include <zck.h>

int main(int argc, char **argv) {
    if(argc != 3)
        return 2;
    int fd = open(argv[1], O_WRONLY | O_CREAT | O_TRUNC, 0666);
    zckCtx *z = zck_create();
    if(fd < 0 || z == NULL || !zck_init_write(z, fd))
        return 2;
    if(!zck_set_ioption(z, ZCK_HASH_FULL_TYPE, atoi(argv[2]))) {
        fprintf(stderr, "%s\n", zck_get_error(z));
        return 2;
    }
    char buf[4000];
    for(int c = 0; c < 10; c++) {
        for(int i = 0; i < 4000; i++)
            buf[i] = (char)((i * 7 + c * 13) % 251);
        if(zck_write(z, buf, sizeof(buf)) < 0 || zck_end_chunk(z) < 0)
            return 2;
    }
    if(!zck_close(z)) {
        fprintf(stderr, "%s\n", zck_get_error(z));
        return 2;
    }
    zck_free(&z);
    close(fd);
    return 0;
}

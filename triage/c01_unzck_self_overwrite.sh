#!/bin/sh
# unzck on an archive whose name does not end in .zck (zck -o NAME) truncates and unlinks the archive itself.
# usage: c01_unzck_self_overwrite.sh <build dir>   (exit 1 = reproduced: the archive is gone)
B=${1:-/repo/_build}
T=$(mktemp -d) || exit 2
trap 'rm -rf "$T"' EXIT
cd $T && head -c 5000 /dev/urandom > in.bin && $B/src/zck -o packed.z in.bin >/dev/null || exit 2
$B/src/unzck packed.z; echo "unzck exit code $?"
[ -s packed.z ] && exit 0
echo "packed.z is gone"; exit 1

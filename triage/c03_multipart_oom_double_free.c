/* multipart_extract(): a failed zrealloc() of the carried-over buffer leaves mp->buffer dangling;
 * releasing the download context afterwards frees it a second time. */
#define _GNU_SOURCE
#include <stdio.h>
#include <stdlib.h>
#include <string.h>
#include <dlfcn.h>
#include <zck.h>
#include "zck_private.h"
static int fail_realloc = 0;
void *realloc(void *p, size_t n) {
    static void *(*real)(void *, size_t);
    if(!real) real = dlsym(RTLD_NEXT, "realloc");
    if(fail_realloc && n > 0) return NULL;
    return real(p, n);
}
int main(void) {
    zckCtx *zck = zck_create();
    zckDL *dl = zck_dl_init(zck);
    if(!dl || !dl->mp) { printf("no dl/mp\n"); return 3; }
    dl->mp->buffer = malloc(16); memset(dl->mp->buffer, 'x', 16); dl->mp->buffer_len = 16;
    fail_realloc = 1;
    size_t r = multipart_extract(dl, "abc", 3);
    fail_realloc = 0;
    printf("multipart_extract under OOM returned %zu, mp->buffer=%p (was freed by zrealloc)\n", r, (void*)dl->mp->buffer);
    if(dl->mp->buffer != NULL) { printf("DANGLING: releasing the context frees it again\n"); }
    zck_dl_free(&dl);      /* reset_mp() -> free(mp->buffer): double free when dangling */
    zck_free(&zck);
    printf("released cleanly\n");
    return 0;
}
